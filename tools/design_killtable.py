#!/usr/bin/env python3
"""Rewrite the table between the KILLTABLE markers of DESIGN.md from seeded/*/meta.json."""
import json
import os
import re

VERIF = os.path.dirname(os.path.dirname(os.path.abspath(__file__)))


def touched(patch):
    files, funcs = [], []
    for ln in open(patch):
        m = re.match(r'\+\+\+ b/(\S+)', ln)
        if m and m.group(1) not in files:
            files.append(m.group(1))
        m = re.match(r'@@ .* @@ (?:async )?(?:def|class) (\w+)', ln)
        if m and m.group(1) not in funcs:
            funcs.append(m.group(1))
    return ', '.join(files), ', '.join(funcs[:3])


def first_sentence(text, n=150):
    text = ' '.join(text.split())
    text = re.sub(r'^(Change|m\d)\s*\([^)]*\):\s*', '', text)
    text = re.sub(r'^Change:\s*', '', text)
    cut = re.split(r'(?<=[a-z\)])\. |\nWhy', text)[0]
    return (cut[:n] + '...') if len(cut) > n else cut


def main():
    rows = []
    for name in sorted(os.listdir(os.path.join(VERIF, 'seeded'))):
        mp = os.path.join(VERIF, 'seeded', name, 'meta.json')
        if not os.path.isfile(mp):
            continue
        meta = json.load(open(mp))
        files, funcs = touched(os.path.join(VERIF, 'seeded', name, 'patch.diff'))
        d = meta.get('detected_by') or {}
        obs = ', '.join(d.get('obligations_reporting_violation', []))
        note = meta.get('note', '')
        rows.append(f"| {name} | `{files}` {funcs} | {first_sentence(meta.get('description', ''))} | "
                    f"{d.get('outcome', 'not run')} | {obs or note} |")
    table = ('| change | where | what | quick check of its property | obligations reporting it |\n'
             '|---|---|---|---|---|\n' + '\n'.join(rows) + '\n')
    p = os.path.join(VERIF, 'DESIGN.md')
    s = open(p).read()
    a, b = '<!-- KILLTABLE:BEGIN -->\n', '<!-- KILLTABLE:END -->'
    s = s[:s.index(a) + len(a)] + table + s[s.index(b):]
    open(p, 'w').write(s)
    det = sum(1 for r in rows if '| detected |' in r)
    print(f'{det} of {len(rows)} detected')


if __name__ == '__main__':
    main()
