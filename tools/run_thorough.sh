#!/bin/sh
# usage: tools/run_thorough.sh [ID...]   - run the thorough tier of the given (default: all)
# properties one after another on /repo's working tree; evidence goes to evidence-thorough/
# (evidence/<ID>.json stays the record of the last quick run); one summary line per property
# is appended to evidence-thorough/SUMMARY.txt.
cd "$(dirname "$0")/.."
mkdir -p evidence-thorough
IDS="$@"
[ -n "$IDS" ] || IDS="C01 C02 C03 C04 C05 C06 C07 C08 C09 C10 C11 C12 C13 C14 C15 C16 C17 C18 C19 C20"
for id in $IDS; do
    t0=$(date +%s)
    VF_EVIDENCE_DIR="$PWD/evidence-thorough" ./check "$id" --tier thorough > "evidence-thorough/$id.log" 2>&1
    rc=$?
    t1=$(date +%s)
    echo "$id exit=$rc wall=$((t1 - t0))s $(grep "^$id \[" "evidence-thorough/$id.log" | tail -1)" >> evidence-thorough/SUMMARY.txt
    grep -E "^(VIOLATION|HARNESS-ERROR|NOTE)" "evidence-thorough/$id.log" >> evidence-thorough/SUMMARY.txt
done
