#!/usr/bin/env python3
"""Regenerate MANIFEST.json from the table below (kept here so that the manifest is
always consistent with the harness files that exist)."""
import json
import os

VERIF = os.path.dirname(os.path.dirname(os.path.abspath(__file__)))

NOTE_COMMON = ("Trusted: CPython 3.12, CrossHair 0.0.110's model of it, z3 5.1. Bounds, stubs and "
               "what lies outside them are listed per obligation in the evidence file; "
               "'confirmed' = CrossHair exhausted every path inside the bound, otherwise the run "
               "is bug hunting only. ")

DB_NOTE = ("SQLite is replaced by vf/sqlmodel.py, an interpreter for the SQL text the real code emits "
           "(differentially validated against real sqlite3 and by the repository's own tests at setup; "
           "every counterexample is replayed on a real database before it is reported). ")

CHECKS = {
    'C01': dict(
        text="Bounded symbolic model checking of the real add_lexical_resource and query API: documents "
             "with a concrete skeleton and symbolic payload (all strings/flags/presence bits) are added "
             "through an executable model of the SQL; the walk over the public API must equal an "
             "independent projection of the document for every payload value.",
        note=NOTE_COMMON + DB_NOTE + "normalize_form stubbed by identity while adding; written forms "
             "and counts concrete at API level (raw-column obligation covers them symbolically).",
        technique="CrossHair symbolic execution (z3) of real wn._add/_queries/_core over an executable SQL model",
        ref='4 C01'),
    'C02': dict(
        text="Bounded symbolic model checking of the real wn.lmf writer and reader: a resource in the "
             "loader normal form (rich skeleton, with and without an extension, every optional part "
             "behind presence bits) whose attribute values are symbolic strings is written by the real "
             "_dump_* / _build_* functions, fed through a tree-to-event bridge into the real expat "
             "handler closures and _validate, and must come back equal (modulo the normal form) in each "
             "version 1.0-1.3; dumping the result again must give the same element trees. Escaping "
             "(ElementTree attribute/text escapers, quoteattr) is proved against a reference un-escaper "
             "for all short strings; the <Lexicon> start tag is parsed from the real output text.",
        note=NOTE_COMMON + "expat/ElementTree byte framing is replaced by vf/lmfbridge.py (stub contract "
             "stated there); texts and lexicon-level attribute values come from pools with XML-special "
             "characters, tabs and newlines; xml:space=preserve documents are outside.",
        technique="CrossHair symbolic execution (z3) of the real LMF writer and reader joined by an event bridge",
        ref='4 C02'),
    'C03': dict(
        text="Bounded symbolic model checking of the real export chain: add_lexical_resource (SQL model) -> "
             "_export_lexicon in every export version 1.0-1.3 from 1.0-style and 1.1-style source documents "
             "-> real LMF writer -> reader (event bridge) -> add to an empty database. The exported "
             "resource must say what the document says (projection incl. frames per sense, every "
             "definition with language and source sense, example languages, relation/count metadata, "
             "dependencies, proposed ILIs) and the second database must be observationally identical to "
             "the first; an installed extension must not leak into the export of its base; clashing ids "
             "are refused.",
        note=NOTE_COMMON + DB_NOTE + "Findings C03-frame-ids (open) and C04-tags (open) are excluded by "
             "their predicates; extensions themselves are not exported (the property is about "
             "non-extension lexicons).",
        technique="CrossHair symbolic execution (z3) of add -> export -> dump -> load -> add over SQL model + event bridge",
        ref='4 C03'),
    'C04': dict(
        text="Bounded symbolic model checking of scoping: (a) containment - every entity met in a two-step "
             "walk over the public API of Wordnet(lexicon, expand) belongs to the selection (or, in default "
             "mode, to the family of the entity it was reached from); (b) non-interference (2-safety) - "
             "the transcript is identical with and without any lexicon outside the selection and its "
             "expand set, incl. an unselected extension of a selected lexicon and another version of a "
             "dependency; (c) frame condition per SQL statement with symbolic row owners for 14 query "
             "functions. Lexicon/expand arguments and the absent lexicon are symbolic.",
        note=NOTE_COMMON + DB_NOTE + "Universe of 8 small lexicons. Tags/pronunciations are excluded while "
             "finding C04-tags (no owner column) is open.",
        technique="CrossHair symbolic execution (z3) over an executable SQL model; 2-safety and frame conditions",
        ref='4 C04'),
    'C05': dict(
        text="Bounded symbolic model checking of add / remove / ILI-load histories: the three operations of a "
             "history (from the empty database or from one holding B:1) are chosen by symbolic integers "
             "from an alphabet of adds and removes with exact, bare-id and star specifiers over a universe "
             "of two versions of one id, an extension, an extension of the extension, a lexicon with a "
             "satisfiable and an unsatisfiable dependency; afterwards the installed set, a foreign-key and "
             "ownership audit of all tables, requires/extends/extensions, and the observation of every "
             "installed lexicon (with its extension family) must equal those of a fresh database to which "
             "just the installed lexicons were added.",
        note=NOTE_COMMON + DB_NOTE + "Foreign-key cascades (CASCADE / SET NULL / NO ACTION) are part of "
             "the model. Quick: 8 operations, thorough: 14. Finding C05-tags (open) is excluded.",
        technique="CrossHair symbolic execution (z3) with solver-chosen operation histories over an executable SQL model",
        ref='4 C05'),
    'C06': dict(
        text="Bounded symbolic model checking of the real add_lexical_resource / remove with the point "
             "of failure as a symbolic integer: the k-th SQL call or progress callback raises (Exception "
             "or BaseException), or one reference of the document is corrupted; the model database must "
             "equal its snapshot, no transaction may stay open and a following add must give the normal "
             "result. Exhaustive over k for the stated resources.",
        note=NOTE_COMMON + DB_NOTE + "Transaction semantics (implicit BEGIN, with-block commit/rollback) "
             "are part of the model; crash consistency is outside the property.",
        technique="CrossHair symbolic execution (z3) with symbolic fault index over an executable SQL model",
        ref='4 C06'),
    'C07': dict(
        text="Decidable part of the property: bounded symbolic model checking of the skip rules of "
             "_precheck (installed lexicons and extensions without their base are skipped as a whole, also "
             "inside a multi-lexicon resource, and a repeated add changes no table), non-modification of "
             "the in-memory resource (deep copy before = after, also after adding twice), equivalence of "
             "the file route _add_lmf and the in-memory route on the same document (full table dumps), and "
             "the file-signature sniffers on symbolic byte prefixes (exact, mutually exclusive). "
             "NOT claimed: equality of content across .gz/.xz/tar/package/collection routes.",
        note=NOTE_COMMON + DB_NOTE + "Route equivalence through zlib / liblzma / tarfile / directories is "
             "not applicable to this technique (C and IO code the engine can only run concretely) and is "
             "explicitly not claimed; scan_lexicons/load are stubbed in the route comparison (their "
             "agreement is C20/C02).",
        technique="CrossHair symbolic execution (z3) of real add paths over an executable SQL model (partial: see note)",
        ref='4 C07'),
    'C08': dict(
        text="Bounded symbolic model checking of the real find_lexicons (Python loop + SQL with GLOB, "
             "ORDER BY, LIMIT on the SQL model), Wordnet.__init__ and wn.lexicons: for every specifier "
             "template (*, id, id:*, id:version, *:version, id*, and pairs) and every combination of "
             "specifier parts / language code drawn by symbolic index from pools of stored and unknown "
             "values, the selection equals an independent reading of docs/guides/lexicons.rst, incl. the "
             "error rule.",
        note=NOTE_COMMON + DB_NOTE + "Three stored lexicons (two versions of one id added in a fixed "
             "order, ids that are prefixes of each other, dotted versions); arbitrary glob patterns "
             "beyond the templates are outside. Character-level symbolic strings were abandoned: every "
             "character-class precondition forks the path.",
        technique="CrossHair symbolic execution (z3) of the real specifier logic over an executable SQL model",
        ref='4 C08'),
    'C09': dict(
        text="Bounded symbolic model checking of the real form search: _find_helper, the form conditions "
             "of find_entries/find_senses/find_synsets (SQL on the model) and the normalized_form column "
             "written by _insert_forms. Written forms, parts of speech, the query, the pos filter and the "
             "forms a custom lemmatizer proposes are chosen by symbolic index from a pool with case / "
             "diacritic / suffix variants; every configuration normalizer x search_all_forms x lemmatizer "
             "(none, custom with two pos groups, Morphy) is a partition; results are compared with the "
             "documented exact -> normalized -> lemmatized procedure.",
        note=NOTE_COMMON + DB_NOTE + "The real normalize_form is used (concrete strings); its Unicode "
             "behaviour beyond the pool is outside. Two words per lexicon.",
        technique="CrossHair symbolic execution (z3) of the real search logic over an executable SQL model",
        ref='4 C09'),
    'C10': dict(
        text="Bounded symbolic model checking of the real navigation methods (Sense.word/synset, "
             "Word.senses/synsets, Synset.senses/words/lemmas, translate, ==/hash) over the SQL model: "
             "table rows whose ids and owning lexicons are symbolic (ids may coincide across lexicons), "
             "and a universe of base + extension + extension of the extension + a lexicon reusing the "
             "base's ids + a lexicon of another language with symbolic ILI assignment, Wordnet selection "
             "and translation target; results compared with what the documents declare.",
        note=NOTE_COMMON + DB_NOTE + "Skeletons are small (2-3 entities per kind and lexicon).",
        technique="CrossHair symbolic execution (z3) of real wn._core navigation over an executable SQL model",
        ref='4 C10'),
    'C11': dict(
        text="Bounded symbolic model checking of the real relation API (relations, get_related, "
             "relation_map, get_related_synsets, hypernyms/holonyms/..., closure, relation_paths): a base "
             "lexicon and an extension with relation slots whose target, type, dc:type and declaring "
             "lexicon are symbolic (self-loops, parallel and duplicated relations, non-standard types), "
             "symbolic scope and type filter, compared with the declared relations in scope; closure and "
             "relation_paths on every digraph on 3 nodes with a call budget for termination.",
        note=NOTE_COMMON + DB_NOTE + "Two slots per source; pools of 2 (quick) to 4 (thorough) values per "
             "slot attribute.",
        technique="CrossHair symbolic execution (z3) of real relation queries over an executable SQL model",
        ref='4 C11'),
    'C12': dict(
        text="Bounded symbolic model checking of the real expand logic: for a lexicon L and expand "
             "lexicons E, E2 (and optionally a newer E:2) with symbolic ILI assignment, relation targets, "
             "expand mode (default from dependencies, '', explicit single/several, '*', unrestricted) and "
             "dependency declaration, the relations of every synset of L equal own relations followed by "
             "the ILI-mapped relations of the expand synsets (placeholders for missing concepts, ILI-less "
             "targets dropped, source/target/lexicon of the expand lexicon kept); expanded_lexicons() and "
             "the missing-dependency warning are checked too.",
        note=NOTE_COMMON + DB_NOTE + "Synset relations only; L has 3 synsets, E 4, E2 2.",
        technique="CrossHair symbolic execution (z3) of the real expand logic over an executable SQL model",
        ref='4 C12'),
    'C13': dict(
        text="Bounded symbolic model checking of the real wn.taxonomy functions and Synset.relation_paths: "
             "adjacency bits of the hypernym graph are symbolic, so every DAG on 4 (thorough: 5) nodes in "
             "two labellings and every digraph on 3 nodes is covered; results are compared with textbook "
             "definitions; termination via a call budget.",
        note=NOTE_COMMON + "The SQL relation query is stubbed by the adjacency matrix (column layout of the "
             "real query); counterexamples are replayed on a real database built from the graph.",
        technique="CrossHair symbolic execution (z3) over symbolic adjacency matrices vs. graph-theoretic oracle",
        ref='4 C13'),
    'C14': dict(
        text="Structure level: bounded symbolic model checking of the real similarity.path/wup (and the "
             "taxonomy functions below them) on all DAGs on 4 nodes and on template graphs with symbolic "
             "chain lengths, against the documented formulas; pos compatibility of all six metrics with "
             "symbolic pos strings. Formula level: the bodies of lch/res/jcn/lin are translated from "
             "their AST into z3 terms and symmetry, special cases, bounds and absence of division by zero "
             "are discharged as unsat queries (cross-checked with cvc5), unbounded in the numeric values.",
        note=NOTE_COMMON + "math.log is uninterpreted (ground monotonicity instances); reals for floats; "
             "distance/LCS/IC enter the formula level as symbolic values constrained by what C13/C15 "
             "establish.",
        technique="CrossHair symbolic execution on symbolic graphs + z3/cvc5 queries over AST-translated formulas",
        ref='4 C14'),
    'C15': dict(
        text="Bounded symbolic model checking of the real wn.ic.compute / synset_probability / load: every "
             "labelled digraph on 3 nodes (cycles, convergent paths in any listing order), symbolic word "
             "membership, a/s mixtures; weights compared with the closed form of docs/api/wn.ic.rst "
             "(counted once per word synset), monotonicity and probability bounds stated linearly.",
        note=NOTE_COMMON + "On the exhaustive graphs counts/smoothing range over {0,3,5}/{0,0.25} "
             "(compute is linear in them); symbolic integer counts are explored on a fixed diamond as bug "
             "hunting. Reals stand in for floats; math.log is not executed (IC claims follow from the "
             "probability claims by monotonicity of log).",
        technique="CrossHair symbolic execution (z3) over symbolic adjacency matrices vs. closed-form oracle",
        ref='4 C15'),
    'C20': dict(
        text="Bounded symbolic model checking of the real rejection paths of wn.lmf: header check "
             "(_read_header, is_lmf, load) over 234 combinations of declaration / DOCTYPE / line-ending "
             "variations incl. non-UTF-8 bytes; the expat handler closures driven with symbolic element "
             "names (all 23 names of all versions + an unknown one) - rejected iff a name does not exist in "
             "the declared version or a single-valued child repeats; _validate with any one of 23 "
             "identifying attributes removed; scan_lexicons on text produced by the real writer (both "
             "quote styles, entities, tabs, a start tag across the 64 KiB mark) vs. a reference parse; "
             "_add_lmf issuing no DML when load() rejects.",
        note=NOTE_COMMON + "Files are fake file objects; XML well-formedness checking itself (expat) and "
             "byte framing are outside.",
        technique="CrossHair symbolic execution (z3) of the real LMF header / handler / validation / scan code",
        ref='4 C20'),
    'C19': dict(
        text="Bounded symbolic model checking of the real _add_ili (upsert SQL on the model), _ili.load / "
             "is_ili (fake file) and add_lexical_resource in four interleavings (index->lexicon, "
             "lexicon->index, index->lexicon->newer index, lexicon->index->index): rows of the index "
             "(id, status, definition, missing columns, header case) are chosen by symbolic index; after "
             "every index load only the ILI inventory may have changed (all other tables, ILI rowids, "
             "synset-ILI links, proposed ILIs and the lexicon observation are compared), and the final "
             "statuses / definitions equal the last file that lists each ILI in every interleaving.",
        note=NOTE_COMMON + DB_NOTE + "One lexicon with i1 (own ILI definition), i2 and a proposed ILI; "
             "index files of two rows; the API lists only ILIs used by installed lexicons, ILIs known only "
             "to the index are compared in the table.",
        technique="CrossHair symbolic execution (z3) of the real ILI loading code over an executable SQL model",
        ref='4 C19'),
    'C18': dict(
        text="Bounded symbolic model checking of the real wn.validate checks: lexicons whose ids, "
             "references, relation targets/types, ILIs, parts of speech and texts are symbolic strings; "
             "each check's items are compared with an independent predicate, the report keys with the "
             "documented table.",
        note=NOTE_COMMON + "Relation types for W402/W404/W501 are chosen by symbolic index from a pool "
             "of names; the E204/E401 => add-rejects clause is checked in C06.",
        technique="CrossHair symbolic execution (z3) of the real, de-hashed wn.validate code vs. oracle",
        ref='4 C18'),
    'C16': dict(
        text="Independence from set iteration order decided by the solver: the wn modules are recompiled "
             "with sets whose iteration order is a permutation chosen by symbolic integers, and each "
             "covered function must return identical transcripts (list and mapping order included) in "
             "identity order and in any chosen order (2-safety). Plus: read-only calls issue no DML on "
             "the SQL model, are repeatable and do not depend on which Wordnet was queried before "
             "(functools caches modelled). An AST inventory lists every set-building function and how "
             "it is covered.",
        note=NOTE_COMMON + DB_NOTE + "Order choices are bounded (3 varying choices in the quick tier). "
             "SQLite's own row order, dump/export byte output (C02/C03) and thread scheduling are "
             "outside. Counterexamples are replayed in sub-processes over PYTHONHASHSEED 0..11.",
        technique="CrossHair symbolic execution (z3) with solver-chosen set iteration order (2-safety)",
        ref='4 C16'),
    'C17': dict(
        text="Bounded symbolic model checking of the real wn.morphy.Morphy and wn._core._find_helper: "
             "for every query string up to the length bound (all code points) and every symbolic "
             "small wordnet, the result equals an independent oracle written from the documentation; "
             "CrossHair explores every path and z3 decides the postcondition per path.",
        note=NOTE_COMMON + "Stubs: a fake wordnet object (words()/forms()/pos) with symbolic "
             "content; a stub lemmatizer/query function for the union obligation.",
        technique="CrossHair symbolic execution (z3) of the real, de-hashed wn.morphy code vs. oracle",
        ref='4 C17'),
}

NOT_YET = "check not built yet in this snapshot (see DESIGN.md section 4 for the plan)"
NA = {
}


# obligations added after independently seeded changes escaped the first version of a check
ADDED = {
    'C01': 'One obligation supplies the document as a file: real writer -> real reader handlers (text in '
           'one or two chunks) -> add.',
    'C02': 'The extension round trip includes pronunciations on external lemmas and forms.',
    'C03': 'An installed dependency must not change the exported <Requires>; the scan that wn.add(file) '
           'relies on (scan_lexicons) names exactly the exported lexicons.',
    'C04': 'The walk takes a second step from placeholder (*INFERRED*) synsets; an ILI index with '
           'definitions is loaded between the lexicons.',
    'C05': 'The alphabet includes an invalid lexicon and an invalid extension whose add fails late; '
           "SQLite's progress handler may fire in any statement; PRAGMA foreign_keys is modelled.",
    'C06': 'An installed lexicon waits for the lexicons of the failing resource (dependency re-linking '
           'inside the transaction); thorough tier: the resource also holds an extension.',
    'C12': 'An extension of E that owns a relation between two synsets of E is borrowed exactly when it '
           'is among the expand lexicons, with itself as the defining lexicon.',
    'C14': 'Solver queries also cover: wn.Error when the synsets share no hypernym, whatever the IC values.',
    'C15': 'load() is checked on weights written as integer, decimal, exponent and without leading digit.',
    'C17': 'Includes a query that is both a listed irregular form and a regular inflection; wn.Form keeps '
           'equal objects hashing equally (Morphy looks plain strings up in sets of Forms).',
    'C18': 'The items of every check are the same alone and in a full run (shared id tables); W403 with '
           'mixed dc:type; a lexicon for which E204/E401 is reported is refused by add() whatever else '
           'is installed.',
    'C20': 'Headers with byte order marks; documents cut off after a solver-chosen line are rejected by '
           'load() (expat runs natively on the concrete bytes); attribute values that look like '
           'id="..." inside other attributes.',
}


def main():
    props = [json.loads(l) for l in open(os.path.join(VERIF, 'properties.jsonl'))]
    checks = []
    na = []
    for p in props:
        pid = p['id']
        c = CHECKS.get(pid)
        if c and os.path.exists(os.path.join(VERIF, 'harness', pid + '.py')):
            checks.append({
                'property_id': pid,
                'quick_cmd': f'./check {pid} --tier quick',
                'thorough_cmd': f'./check {pid} --tier thorough',
                'evidence_file': f'evidence/{pid}.json',
                'replay_cmd_template': f'./check {pid} --replay {{path}}',
                'engine': 'chx',
                'level_claimed': {'category': 'model_checking',
                                  'text': c['text'] + (' ' + ADDED[pid] if pid in ADDED else ''),
                                  'design_ref': 'DESIGN.md section ' + c['ref']},
                'level_note': c['note'],
                'technique': c['technique'],
            })
        else:
            na.append({'property_id': pid, 'reason': NA.get(pid, NOT_YET)})
    m = {
        'version': 1,
        'setup_cmd': './bootstrap.sh && ./.venv/bin/python -m vf.selftest',
        'hooks': {
            'guard': 'GOODMAMI_WN_VERIF',
            'enable': 'no source hooks: instrumentation is done by rebinding names at harness import '
                      'time and compiling transformed copies of /repo/wn/*.py in memory',
            'baseline_off_cmd': 'cd /repo && /venv/bin/python -m pytest -ra -q -p no:cacheprovider '
                                '--timeout=900 --continue-on-collection-errors',
            'source_commits': [],
            'add_only': True,
        },
        'engines': [
            {'name': 'chx', 'path': 'vf/chx.py',
             'serves_properties': [c['property_id'] for c in checks],
             'kind_free_text': 'driver for CrossHair (symbolic execution of Python with z3): one '
                               'process per harness x partition, reachability twin and canary per '
                               'obligation, real-mode replay of counterexamples'},
            {'name': 'transforms', 'path': 'vf/transforms.py', 'serves_properties': [],
             'kind_free_text': 'import hook re-compiling /repo/wn modules with equality-based '
                               'containers (and solver-chosen set order)'},
        ],
        'checks': checks,
        'not_applicable': na,
        'notes': 'Solver-based checking of the real code; see DESIGN.md. Exit 2 of a check means '
                 'harness error (never a violation).',
    }
    with open(os.path.join(VERIF, 'MANIFEST.json'), 'w') as f:
        json.dump(m, f, indent=1)
        f.write('\n')


if __name__ == '__main__':
    main()
