#!/bin/sh
# usage: tools/collect.sh <PID> <m...>   - adopt sub-agent output from /tmp/wt/<PID>/_out and drop the worktree
P=$1; shift
cd "$(dirname "$0")/.."
mkdir -p /tmp/vf-incoming/$P && cp /tmp/wt/$P/_out/* /tmp/vf-incoming/$P/ 2>/dev/null
for m in "$@"; do python3 tools/adopt_seeded.py $P /tmp/vf-incoming/$P $m 2>&1 | tail -1; done
git -C /repo worktree remove --force /tmp/wt/$P 2>/dev/null
rm -rf /tmp/vf-incoming/$P
