#!/usr/bin/env python3
"""Validate a sub-agent's seeded change and adopt it as /verif/seeded/<PID>-<name>/.

usage: adopt_seeded.py <PID> <incoming_dir> <mN>

Confirms, in a scratch copy of /repo outside /repo and /verif:
  * the patch applies, the library imports, tests/ passes with it;
  * the demonstration fails with the patch and passes without it.
Only then writes patch.diff, demo.py, meta.json.
"""
import json
import os
import shutil
import subprocess
import sys
import tempfile

VERIF = os.path.dirname(os.path.dirname(os.path.abspath(__file__)))
PY = '/venv/bin/python'


def run(cmd, cwd, timeout=900):
    p = subprocess.run(cmd, cwd=cwd, capture_output=True, text=True, timeout=timeout)
    return p.returncode, (p.stdout + p.stderr)[-1500:]


def main():
    pid, inc, m = sys.argv[1:4]
    patch = os.path.abspath(os.path.join(inc, m + '.diff'))
    demo = os.path.abspath(os.path.join(inc, m + '_demo.py'))
    note = open(os.path.join(inc, m + '.txt')).read().strip()
    d = tempfile.mkdtemp(prefix='vf-adopt-')
    try:
        repo = os.path.join(d, 'repo')
        os.makedirs(repo)
        for x in ('wn', 'tests', 'pyproject.toml'):
            src = os.path.join('/repo', x)
            (shutil.copytree if os.path.isdir(src) else shutil.copy)(src, os.path.join(repo, x))
        subprocess.check_call(['git', 'init', '-q', '.'], cwd=repo)
        shutil.copy(demo, os.path.join(repo, 'demo.py'))
        env_demo = [PY, 'demo.py']
        rc0, out0 = run(env_demo, repo)
        ran = {'demo_without_change': rc0}
        rc, out = run(['git', 'apply', patch], repo)
        if rc != 0:
            print('REJECT: patch does not apply', out)
            return 1
        rct, outt = run([PY, '-m', 'pytest', '-q', '-p', 'no:cacheprovider', 'tests'], repo)
        ran['tests_with_change'] = rct
        rc1, out1 = run(env_demo, repo)
        ran['demo_with_change'] = rc1
        ok = rc0 == 0 and rct == 0 and rc1 != 0
        print(pid, m, ran, 'OK' if ok else 'REJECT')
        if not ok:
            print(out0[-400:], outt[-400:], out1[-400:])
            return 1
        name = f'{pid}-{m}'
        dst = os.path.join(VERIF, 'seeded', name)
        os.makedirs(dst, exist_ok=True)
        shutil.copy(patch, os.path.join(dst, 'patch.diff'))
        shutil.copy(demo, os.path.join(dst, 'demo.py'))
        meta = {
            'property': pid, 'name': name, 'source': 'independent sub-agent given only the '
            'property text and a scratch worktree',
            'description': note,
            'needs_to_manifest': note,
            'validated': {
                'how': 'scratch copy of /repo (wn/, tests/) outside /repo and /verif; '
                       '`python demo.py` before the patch, `git apply patch.diff`, '
                       '`pytest tests`, `python demo.py` again',
                'demo_exit_without_change': rc0, 'tests_exit_with_change': rct,
                'demo_exit_with_change': rc1,
                'demo_output_with_change': out1[-600:],
            },
            'detected_by': None,
        }
        with open(os.path.join(dst, 'meta.json'), 'w') as f:
            json.dump(meta, f, indent=1)
        return 0
    finally:
        shutil.rmtree(d, ignore_errors=True)


if __name__ == '__main__':
    sys.exit(main())
