#!/usr/bin/env python3
"""Print a markdown summary of the obligations of every harness (for DESIGN.md section 0a)."""
import os
import sys
VERIF = os.path.dirname(os.path.dirname(os.path.abspath(__file__)))
sys.path.insert(0, VERIF)
os.environ['VF_MODE'] = 'real'
from vf import replay  # noqa: E402

for fn in sorted(os.listdir(os.path.join(VERIF, 'harness'))):
    if not fn.endswith('.py'):
        continue
    pid = fn[:-3]
    mod = replay.load_harness(os.path.join(VERIF, 'harness', fn))
    print(f'**{pid}** - {getattr(mod, "TECHNIQUE", "")}\n')
    print('| obligation | symbolic | bounds | canaries |')
    print('|---|---|---|---|')
    for o in mod.OBLIGATIONS:
        cfgq = o.quick
        parts = cfgq.get('parts', o.parts)
        print(f"| {o.name} ({parts} part{'s' if parts != 1 else ''}) | {o.symbolic.replace('|', '/')} | "
              f"{o.bounds.replace('|', '/')} | {', '.join(c for c, _p in o.canaries) or '-'} |")
    if getattr(mod, 'EXTRA', None) == 'formulas':
        print('| formula-lch/res/jcn/lin (z3 + cvc5) | distances, depth, IC values: unbounded | '
              'symmetry, special cases, bounds, no division by zero, identity maximal (lch) | '
              'jcn-special-case, lin-asymmetric, lch-depth |')
    print()
