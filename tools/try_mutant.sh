#!/bin/sh
# usage: tools/try_mutant.sh <patch.diff> <ID> [check args...]
# Applies the patch to a scratch copy of /repo (outside /repo and /verif), runs the check
# against it (WN_REPO) and removes the copy.  /repo itself is not touched.
set -e
PATCH=$(readlink -f "$1"); shift
ID=$1; shift
cd "$(dirname "$0")/.."
D=$(mktemp -d /tmp/vf-mut-XXXXXX)
trap 'rm -rf "$D"' EXIT
mkdir -p "$D/repo"
cp -r /repo/wn /repo/tests /repo/pyproject.toml "$D/repo/"
( cd "$D/repo" && git init -q . 2>/dev/null && git apply "$PATCH" )
set +e
WN_REPO="$D/repo" VF_EVIDENCE_DIR="$D/evidence" ./check "$ID" "$@"
rc=$?
echo "mutant exit code: $rc"
exit 0
