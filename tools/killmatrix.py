#!/usr/bin/env python3
"""Run the quick check of each seeded change's property against a scratch copy of /repo with
the change applied; record the outcome in seeded/<name>/meta.json and seeded/KILLMATRIX.md.
/repo itself is never touched."""
import json
import os
import re
import shutil
import subprocess
import sys
import tempfile
import time

VERIF = os.path.dirname(os.path.dirname(os.path.abspath(__file__)))


def write_table():
    """KILLMATRIX.md from the detected_by records of every seeded change (not just this run)"""
    with open(os.path.join(VERIF, 'seeded', 'KILLMATRIX.md'), 'w') as f:
        f.write('# Seeded changes vs. quick checks\n\n| change | property | outcome | obligations that '
                'report it | wall s |\n|---|---|---|---|---|\n')
        for name in sorted(os.listdir(os.path.join(VERIF, 'seeded'))):
            mp = os.path.join(VERIF, 'seeded', name, 'meta.json')
            if not os.path.isfile(mp):
                continue
            meta = json.load(open(mp))
            d = meta.get('detected_by') or {}
            f.write('| ' + ' | '.join(str(x) for x in (
                name, meta['property'], d.get('outcome', 'not run'),
                ', '.join(d.get('obligations_reporting_violation', [])), d.get('wall_s', ''))) + ' |\n')


def main():
    if sys.argv[1:] == ['--table']:
        return write_table()
    names = sorted(d for d in os.listdir(os.path.join(VERIF, 'seeded'))
                   if os.path.isdir(os.path.join(VERIF, 'seeded', d)) and not d.startswith('_'))
    only = sys.argv[1:]
    rows = []
    for name in names:
        if only and name not in only and name.split('-')[0] not in only:
            continue
        sd = os.path.join(VERIF, 'seeded', name)
        meta = json.load(open(os.path.join(sd, 'meta.json')))
        pid = meta['property']
        d = tempfile.mkdtemp(prefix='vf-km-')
        t0 = time.time()
        try:
            repo = os.path.join(d, 'repo')
            os.makedirs(repo)
            for x in ('wn', 'tests', 'pyproject.toml'):
                src = os.path.join('/repo', x)
                (shutil.copytree if os.path.isdir(src) else shutil.copy)(src, os.path.join(repo, x))
            subprocess.check_call(['git', 'init', '-q', '.'], cwd=repo)
            p = subprocess.run(['git', 'apply', os.path.join(sd, 'patch.diff')], cwd=repo,
                               capture_output=True, text=True)
            if p.returncode != 0:
                p = subprocess.run(['patch', '-p1', '-F3', '-i', os.path.join(sd, 'patch.diff')],
                                   cwd=repo, capture_output=True, text=True)
            if p.returncode != 0:
                rows.append((name, pid, 'patch does not apply', '', 0))
                continue
            env = dict(os.environ, WN_REPO=repo, VF_EVIDENCE_DIR=os.path.join(d, 'evidence'))
            r = subprocess.run([os.path.join(VERIF, 'check'), pid, '--tier', 'quick'], cwd=VERIF,
                               env=env, capture_output=True, text=True)
            out = r.stdout + r.stderr
            viol = re.findall(r'VIOLATION property=(\S+) replay=\S*/(\S+?)-\d+\.json', r.stdout)
            obs = sorted({v[1].split('-', 1)[1] for v in viol})
            summ = [ln for ln in r.stdout.splitlines() if ln.startswith(pid + ' [')]
            outcome = {0: 'MISSED', 1: 'detected', 2: 'harness-error'}.get(r.returncode, str(r.returncode))
            rows.append((name, pid, outcome, ', '.join(obs), round(time.time() - t0)))
            meta['detected_by'] = {'check': f'./check {pid} --tier quick', 'exit_code': r.returncode,
                                   'outcome': outcome, 'obligations_reporting_violation': obs,
                                   'summary': summ[-1] if summ else out[-300:],
                                   'how_run': 'tools/killmatrix.py: patch applied to a scratch copy of '
                                              '/repo (WN_REPO), /repo untouched', 'wall_s': rows[-1][4]}
            json.dump(meta, open(os.path.join(sd, 'meta.json'), 'w'), indent=1)
            print(rows[-1], flush=True)
        finally:
            shutil.rmtree(d, ignore_errors=True)
    write_table()
    missed = [r for r in rows if r[2] != 'detected']
    print('missed / errors:', missed)


if __name__ == '__main__':
    main()
