"""C17 - Morphy returns only valid lemmas when initialized and all candidates otherwise.

Symbolic: the query string (any code points), the lemma / extra form / part of speech
of the words of the wordnet Morphy is initialized with.
"""
from vf import rt
from vf.chx import Ob

CANARIES = {
    'whole-word-suffix': ('wn.morphy', 'len(suffix) < len(form)', 'len(suffix) <= len(form)'),
    'unfiltered-candidates': ('wn.morphy', 'if not initialized or candidate in all_lemmas:',
                              'if True:'),
    'exceptions-dropped': ('wn.morphy',
                           "candidates.update(self._exceptions[pos].get(form, set()))",
                           "pass"),
    'exceptions-first-then-stop': ('wn.morphy',
                                   "            candidates.update(self._exceptions[pos].get(form, set()))\n",
                                   "            candidates.update(self._exceptions[pos].get(form, set()))\n"
                                   "            if self._exceptions[pos].get(form):\n"
                                   "                return candidates\n"),
    'form-hash-with-script': ('wn._core', "    def __hash__(self):\n        return str.__hash__(self)\n\n    def pronunciations(self)",
                              "    def __hash__(self):\n        return str.__hash__(self + (self.script or ''))\n\n    def pronunciations(self)"),
    'exceptions-overwrite': ('wn.morphy', "pos_exc[other].add(lemma)", "pos_exc[other] = {lemma}"),
    'dup-union': ('wn._core', "        if result not in seen:\n", "        if True:\n"),
}
rt.setup(canaries=CANARIES)

import wn  # noqa: E402
import wn.morphy as M  # noqa: E402
from wn import _core  # noqa: E402

TECHNIQUE = 'CrossHair symbolic execution of the real wn.morphy.Morphy (de-hashed) against an ' \
            'independent oracle; exhaustive over paths within string-length bounds'
ASSUMPTIONS = [
    'the wordnet handed to Morphy() is any object whose words() yields objects with pos and '
    'forms(); its content is symbolic',
]

POS_PARTS = [None, 'n', 'v', 'a', 's', 'r', 'x']
POS5 = ['n', 'v', 'a', 's', 'r']
import os  # noqa: E402
MAXQ = int(os.environ.get('VF_MAXQ', 6 if not rt.THOROUGH else 9))    # query length, uninitialized
MAXQI = int(os.environ.get('VF_MAXQI', 5 if not rt.THOROUGH else 7))  # query length, initialized
MAXL = int(os.environ.get('VF_MAXL', 2 if not rt.THOROUGH else 4))    # lemma / form length


# -- helpers (contract-free) ---------------------------------------------------

def _members(s):
    return [x for x in s]


def _contains(items, x):
    for y in items:
        if y == x:
            return True
    return False


def _same_set(a, b):
    a = _members(a)
    b = _members(b)
    for x in a:
        if not _contains(b, x):
            return False
    for x in b:
        if not _contains(a, x):
            return False
    return True


def _rules():
    """The detachment table as read from the module (list of (pos, [(suffix, repl)]))."""
    out = []
    for pos in POS5:
        out.append((pos, [(r[0], r[1]) for r in M.DETACHMENT_RULES[pos]]))
    return out


def _rule_outputs(form, rules):
    outs = []
    for suf, repl in rules:
        n = len(suf)
        if len(form) > n and form[len(form) - n:] == suf:
            outs.append(form[:len(form) - n] + repl)
    return outs


def _expected_uninit(form, pos):
    table = _rules()
    if pos is None:
        exp = [(None, [form])]
        for p, rules in table:
            outs = [o for o in _rule_outputs(form, rules) if not (o == form)]
            if outs:
                exp.append((p, outs))
        return exp
    for p, rules in table:
        if p == pos:
            return [(pos, [form] + _rule_outputs(form, rules))]
    return [(pos, [form])]


def _result_matches(result, expected):
    keys = [k for k in result]
    if len(keys) != len(expected):
        return False
    for k, vals in expected:
        if not _contains(keys, k):
            return False
        if not _same_set(result[k], vals):
            return False
    return True


MAXQA = MAXQI - 1   # query length for the pos=None initialized obligation
LASTS = ['s', 'n', 'r', 'd', 'g', 't', '']   # '' = any other last character / empty string
NP = (len(POS_PARTS) - 1) + len(LASTS)      # partitions: 6 single pos + pos=None x 7 classes


def _pos_of_part():
    i = rt.part(NP)[0]
    return POS_PARTS[1 + i] if i < len(POS_PARTS) - 1 else None


def _in_part(form, offset=len(POS_PARTS) - 1):
    """pos=None is split by the last character of the query (an exhaustive case split)."""
    i = rt.part(NP)[0] - offset
    if i < 0:
        return True
    last = form[len(form) - 1:] if len(form) else ''
    if LASTS[i]:
        return last == LASTS[i]
    for c in LASTS[:-1]:
        if last == c:
            return False
    return True


# -- obligation: uninitialized ----------------------------------------------------

def h_uninit(form: str) -> bool:
    """
    pre: len(form) <= MAXQ
    pre: _in_part(form)
    post: _
    """
    pos = _pos_of_part()
    m = M.Morphy()
    result = m(form, pos)
    return rt.verdict(_result_matches(result, _expected_uninit(form, pos)))


# -- obligation: initialized -------------------------------------------------------

class _W:
    def __init__(self, pos, forms):
        self.pos = pos
        self._forms = forms

    def forms(self):
        return list(self._forms)


class _FakeWordnet:
    def __init__(self, words):
        self._words = words

    def words(self):
        return list(self._words)


def _pick_pos(k):
    for i in range(len(POS5)):
        if k == i:
            return POS5[i]
    return POS5[0]


_OTHER = {'n': 'v', 'v': 'n', 'a': 's', 's': 'a', 'r': 'a', 'x': 'n'}


def _check_init(m, form, qpos, words):
    result = m(form, qpos)
    table = _rules()
    ok = True
    # no key for a part of speech that was not asked for / is not handled
    keys = [k for k in result]
    for k in keys:
        if k is None or not _contains(POS5, k):
            ok = False
        if qpos is not None and k != qpos:
            ok = False
    for p, rules in table:
        if qpos is not None and qpos != p:
            continue
        lemmas = [w._forms[0] for w in words if w.pos == p]
        got = _members(result[p]) if _contains(keys, p) else []
        if _contains(keys, p) and not got:
            ok = False  # empty entries are never reported
        # the three documented sources
        want = []
        if _contains(lemmas, form):
            want.append(form)
        for w in words:
            if w.pos == p and _contains(w._forms[1:], form):
                want.append(w._forms[0])
        for o in _rule_outputs(form, rules):
            if _contains(lemmas, o):
                want.append(o)
        # soundness (only lemmas of words of this pos, only from the three sources) and
        # completeness (all of them)
        for g in got:
            if not _contains(lemmas, g) or not _contains(want, g):
                ok = False
        for x in want:
            if not _contains(got, x):
                ok = False
    return ok


def h_init(form: str, l1: str, f1: str, l2: str, f2: str, same2: bool, has2: bool) -> bool:
    """
    pre: len(form) <= MAXQI
    pre: 1 <= len(l1) <= MAXL and len(f1) <= MAXL and 1 <= len(l2) <= MAXL and len(f2) <= MAXL
    post: _
    """
    qpos = POS_PARTS[1 + rt.part(len(POS_PARTS) - 1)[0]]
    p1 = qpos if qpos != 'x' else 'n'
    words = [_W(p1, [l1] + ([f1] if len(f1) else []))]
    if has2:
        p2 = p1 if same2 else _OTHER[qpos]
        words.append(_W(p2, [l2] + ([f2] if len(f2) else [])))
    m = M.Morphy(_FakeWordnet(words))
    return rt.verdict(_check_init(m, form, qpos, words))


def h_init1(form: str, l1: str, f1: str, other: bool) -> bool:
    """
    pre: len(form) <= MAXQI
    pre: 1 <= len(l1) <= MAXL and len(f1) <= MAXL
    post: _
    """
    qpos = POS_PARTS[1 + rt.part(len(POS_PARTS) - 1)[0]]
    p1 = qpos if qpos != 'x' else 'n'
    if other:
        p1 = _OTHER[qpos]
    words = [_W(p1, [l1] + ([f1] if len(f1) else []))]
    m = M.Morphy(_FakeWordnet(words))
    return rt.verdict(_check_init(m, form, qpos, words))


def _in_last(form, i):
    last = form[len(form) - 1:] if len(form) else ''
    if LASTS[i]:
        return last == LASTS[i]
    for c in LASTS[:-1]:
        if last == c:
            return False
    return True


def h_init2x(form: str, l1: str, l2: str, f1: str, f2: str, same: bool) -> bool:
    """
    pre: len(form) == 1 and len(l1) == 1 and len(l2) == 1 and len(f1) == 1 and len(f2) == 1
    post: _
    """
    # two words that may share their additional (irregular) form and/or their lemma
    qpos = POS_PARTS[1 + rt.part(len(POS_PARTS) - 1)[0]]
    p1 = qpos if qpos != 'x' else 'n'
    p2 = p1 if same else _OTHER[qpos]
    words = [_W(p1, [l1, f1]), _W(p2, [l2, f2])]
    m = M.Morphy(_FakeWordnet(words))
    return rt.verdict(_check_init(m, form, qpos, words))


def h_init_irregular(form: str, l1: str, l2: str, same: bool) -> bool:
    """
    pre: 2 <= len(form) <= 3 and len(l1) == 1 and 1 <= len(l2) <= 2
    post: _
    """
    # the query is a listed additional (irregular) form of one word and may at the same time be
    # a regular inflection of another lemma: both words are proposed
    qpos = POS_PARTS[1 + rt.part(len(POS_PARTS) - 1)[0]]
    p1 = qpos if qpos != 'x' else 'n'
    p2 = p1 if same else _OTHER[qpos]
    words = [_W(p1, [l1, form]), _W(p2, [l2])]
    m = M.Morphy(_FakeWordnet(words))
    return rt.verdict(_check_init(m, form, qpos, words))


HASH_POOL = ['a', 'b', 'ab', '']


def h_form_hash(ks: int, kt: int, script: bool, k: int) -> bool:
    """
    pre: 0 <= ks < 4 and 0 <= kt < 4 and 0 <= k < 4
    post: _
    """
    s, t = HASH_POOL[0], HASH_POOL[0]
    for n in range(4):
        if ks == n:
            s = HASH_POOL[n]
        if kt == n:
            t = HASH_POOL[n]
    # Morphy keeps wn.Form objects (str subclass with a script) in sets and as dictionary keys
    # and looks plain query strings up in them: equal objects must hash equally.  (The sets of
    # the lemmatizer itself are equality-based in this model, so this is stated separately.)
    from wn import Form
    f = Form(s, script='Latn' if script else None)
    others = [t, Form(t), Form(t, script='Latn'), Form(t, script='Cyrl')]
    o = others[0]
    for n in range(4):
        if k == n:
            o = others[n]
    ok = True
    if f == o:
        ho = o.__hash__() if isinstance(o, Form) else str.__hash__(o)
        ok = f.__hash__() == ho and (o == f)
    return rt.verdict(ok)


def h_init_allpos(form: str, l1: str, f1: str) -> bool:
    """
    pre: len(form) <= MAXQA
    pre: 1 <= len(l1) <= MAXL and len(f1) <= MAXL
    pre: _in_last(form, rt.part(35)[0] % 7)
    post: _
    """
    p1 = rt.part(35)[0] // 7
    words = [_W(POS5[p1], [l1] + ([f1] if len(f1) else []))]
    m = M.Morphy(_FakeWordnet(words))
    return rt.verdict(_check_init(m, form, None, words))


# -- obligation: a Wordnet using a lemmatizer finds the union, without duplicates ----

class _Ent:
    def __init__(self, key, _wordnet=None):
        self.key = key

    def __eq__(self, other):
        return isinstance(other, _Ent) and self.key == other.key

    __hash__ = None if rt.SYM else (lambda self: hash(self.key))


def h_union(q: str, fa: str, fb: str, ra: int, rb: int, rq: int, both: bool, np: bool,
            pa: bool, pb: bool) -> bool:
    """
    pre: len(q) == 1 and len(fa) == 1 and len(fb) == 1
    pre: 0 <= ra < 3 and 0 <= rb < 3 and 0 <= rq < 3
    post: _
    """
    # a stub lemmatizer proposing up to two (pos, form) pairs; a stub query function over a
    # symbolic table (form, pos) -> entity number (0 = nothing found)
    table = [(fa, 'n' if pa else 'v', ra), (fb, 'n' if pb else 'v', rb), (q, 'n', rq)]

    def lemmatizer(form, pos):
        if np:
            return rt.mkdict([])
        if both:
            return rt.mkdict([('n', rt.mkset([fa])), ('v', rt.mkset([fb]))])
        return rt.mkdict([('n', rt.mkset([fa]))])

    def query_func(forms=(), pos=None, lexicon_rowids=(), normalized=False,
                   search_all_forms=False, **kw):
        out = []
        for f in forms:
            for tf, tp, ent in table:
                if tf == f and ent != 0 and (pos is None or pos == tp):
                    if not _contains(out, ent):
                        out.append(ent)
        return [(e,) for e in out]

    class _FW:
        _lexicon_ids = (1,)
        _normalizer = None
        _search_all_forms = True

        def __init__(self):
            self.lemmatizer = lemmatizer
    w = _FW()
    got = [g.key for g in _core._find_helper(w, _Ent, query_func, q, None)]
    # oracle: order-preserving union over the proposed pairs, no duplicates
    if np:
        pairs = [(None, q)]
    elif both:
        pairs = [('n', fa), ('v', fb)]
    else:
        pairs = [('n', fa)]
    want = []
    for p, f in pairs:
        for tf, tp, ent in table:
            if tf == f and ent != 0 and (p is None or p == tp) and not _contains(want, ent):
                want.append(ent)
    ok = len(got) == len(want)
    if ok:
        for i in range(len(want)):
            if got[i] != want[i]:
                ok = False
    return rt.verdict(ok)


OBLIGATIONS = [
    Ob('uninitialized', 'h_uninit', parts=NP,
       quick=dict(timeout=150), thorough=dict(timeout=900),
       canary='whole-word-suffix', canary_part=0,
       functions=['wn.morphy.Morphy.__init__', 'wn.morphy.Morphy.__call__',
                  'wn.morphy.Morphy._morphstr', 'wn.morphy.DETACHMENT_RULES'],
       symbolic='query string',
       bounds=f'every str of length <= {MAXQ} over all code points; pos in {POS_PARTS} (one '
              f'partition each; pos=None further split by last character into {LASTS})',
       outside='query strings longer than the bound'),
    Ob('initialized-1word', 'h_init1', parts=len(POS_PARTS) - 1,
       quick=dict(timeout=200), thorough=dict(timeout=900),
       canary='unfiltered-candidates', canary_part=0,
       functions=['wn.morphy.Morphy.__init__', 'wn.morphy.Morphy.__call__',
                  'wn.morphy.Morphy._morphstr'],
       symbolic='query string; lemma and one optional further form of the word',
       bounds=f'query length <= {MAXQI}; wordnet of one word of the query pos or of a '
              f'different one (a<->s, n<->v, r->a), lemma/form length <= {MAXL}; query pos in '
              f'{POS_PARTS[1:]} (one partition each)',
       outside='longer strings; see initialized-2words for two words',
       stubs=['Wordnet.words()/Word.forms()/Word.pos: a fake wordnet with symbolic content']),
    Ob('initialized-shared-forms', 'h_init2x', parts=len(POS_PARTS) - 1,
       quick=dict(timeout=150), thorough=dict(timeout=600),
       canary='exceptions-overwrite', canary_part=0,
       functions=['wn.morphy.Morphy.__init__', 'wn.morphy.Morphy.__call__',
                  'wn.morphy.Morphy._morphstr'],
       symbolic='query, two lemmas, two additional forms',
       bounds='strings of length 1 (any code point; every equality pattern among the 5 strings); '
              'two words of the same or of a different pos; query pos one partition each',
       outside='rule outputs (covered by initialized-1word); longer strings',
       stubs=['fake wordnet as above']),
    Ob('initialized-irregular', 'h_init_irregular', parts=len(POS_PARTS) - 1,
       quick=dict(timeout=200), thorough=dict(timeout=900),
       canary='exceptions-first-then-stop', canary_part=0,
       functions=['wn.morphy.Morphy.__init__', 'wn.morphy.Morphy.__call__',
                  'wn.morphy.Morphy._morphstr'],
       symbolic='query string (2-3 characters), which is also the additional form of word 1; lemma of '
                'word 1 (1 character) and of word 2 (1-2 characters); whether word 2 has the query pos',
       bounds='a listed irregular form that may also be a regular inflection of another lemma'),
    Ob('form-hash-eq', 'h_form_hash', quick=dict(timeout=120), thorough=dict(timeout=300),
       canary='form-hash-with-script', canary_part=0,
       functions=['wn.Form.__eq__', 'wn.Form.__hash__'],
       symbolic='two strings (by index from ' + repr(HASH_POOL) + ': hashing a symbolic string only '
                'realises it), whether the form has a script, what it is compared '
                'with (plain str, Form without script, Form with the same / another script)',
       bounds='a == b implies hash(a) == hash(b) and b == a'),
    Ob('initialized-2words', 'h_init', parts=len(POS_PARTS) - 1, tiers=('thorough',),
       quick=dict(timeout=200), thorough=dict(timeout=1500),
       canary='unfiltered-candidates', canary_part=0,
       functions=['wn.morphy.Morphy.__init__', 'wn.morphy.Morphy.__call__',
                  'wn.morphy.Morphy._morphstr'],
       symbolic='query string; per word: lemma, one optional further form, part of speech',
       bounds=f'query length <= {MAXQI}; wordnet of 1-2 words, lemma/form length <= {MAXL}; '
              f'query pos in {POS_PARTS[1:]} (one partition each); word 1 has the query pos, '
              f'word 2 the query pos or a different one (a<->s, n<->v, r->a)',
       outside='wordnets with more than two words; longer strings',
       stubs=['Wordnet.words()/Word.forms()/Word.pos: a fake wordnet with symbolic content']),
    Ob('initialized-allpos', 'h_init_allpos', parts=35, twin_parts=range(0, 35, 6),
       quick=dict(timeout=150), thorough=dict(timeout=1500),
       canary='exceptions-dropped',
       functions=['wn.morphy.Morphy.__init__', 'wn.morphy.Morphy.__call__',
                  'wn.morphy.Morphy._morphstr'],
       symbolic='query string; lemma, one optional further form and pos of one word',
       bounds=f'query pos None (all parts of speech); query length <= {MAXQA}; wordnet of one '
              f'word, lemma/form length <= {MAXL}, pos in n,v,a,s,r; 35 partitions: word pos x last '
              f'character class of the query',
       outside='larger wordnets for pos=None (covered per pos by obligation initialized)',
       stubs=['fake wordnet as above']),
    Ob('lemmatizer-union', 'h_union', parts=1, quick=dict(timeout=120),
       thorough=dict(timeout=600), canary='dup-union',
       functions=['wn._core._find_helper'],
       symbolic='query, two proposed forms, the entity and the pos each form is stored under',
       bounds='strings of length 1 (any code point); lemmatizer proposes 0, 1 or 2 (pos, form) '
              'pairs; 3-row form table',
       stubs=['lemmatizer: returns the symbolic pairs', 'query function: lookup in a symbolic '
              'form table (the SQL side is C09)']),
]
