"""C18 - the validator always produces a report and each check is exact.

Symbolic: identifiers, synset references, relation targets, relation types, ILIs,
parts of speech and texts of a small lexicon skeleton; the solver decides which of them
coincide (duplicates, dangling references, self-loops, ...).
"""
from vf import rt
from vf.chx import Ob

CANARIES = {
    'e204-inverted': ('wn.validate', "    synset_ids = ids['synset']\n    return {s['id']",
                      "    synset_ids = ids['sense']\n    return {s['id']"),
    'w302-in': ('wn.validate', "ss['ili'] for ss in _synsets(lex) if ss['ili'] and ss['ili'] != 'in'\n",
                "ss['ili'] for ss in _synsets(lex) if ss['ili']\n"),
    'w307-other-synset': ('wn.validate',
                          'if any(dfn["text"] in repeated for dfn in ss.get("definitions", []))',
                          'if any(dfn["text"] in repeated for dfn in ss.get("definitions", [])[:1])'),
    'e401-sense-only': ('wn.validate',
                        "if r['target'] not in ids['sense'] and r['target'] not in ids['synset']}",
                        "if r['target'] not in ids['sense']}"),
    'w404-no-guard': ('wn.validate', "and (tgt, REVERSE_RELATIONS[typ], src) not in regular}",
                      "and (tgt, REVERSE_RELATIONS[typ], tgt) not in regular}"),
    'w402-sense-synset': ('wn.validate', "and r['relType'] not in SENSE_SYNSET_RELATIONS)}",
                          "and r['relType'] not in SENSE_RELATIONS)}"),
    'w501-keyerror': ('wn.validate', "            and r['target'] in sspos\n", ""),
    'e101-forms': ('wn.validate',
                   "(f['id'] for e in _entries(lex) for f in _forms(e) if f.get('id')),",
                   "(f['id'] for e in _entries(lex)[:1] for f in _forms(e) if f.get('id')),"),
    'shared-ids-merged': ('wn.validate', "              if r['target'] not in ids['sense'] and r['target'] not in ids['synset']}",
                          "              if r['target'] not in ids['sense'].__ior__(ids['synset'])}"),
    'w403-ignores-dctype': ('wn.validate', "            (ss['id'], r['relType'], r['target'], _get_dc_type(r))\n            for ss, r in _synset_relations(lex)",
                            "            (ss['id'], r['relType'], r['target'], None)\n            for ss, r in _synset_relations(lex)"),
    'synset-from-any-lexicon': ('wn._add', "      FROM synsets AS ss\n     WHERE ss.id = ?\n       AND ss.lexicon_rowid = ?",
                                "      FROM synsets AS ss\n     WHERE ss.id = ?\n       AND ss.lexicon_rowid >= 0 AND ? IS NOT NULL"),
    'select-category': ('wn.validate', "if code in selectset or code[0] in selectset]",
                        "if code in selectset or code[:2] in selectset]"),
}
rt.setup(canaries=CANARIES)

import sqlite3  # noqa: E402
import wn  # noqa: E402,F401
from wn import validate as V  # noqa: E402
from wn import constants as K  # noqa: E402

TECHNIQUE = 'CrossHair symbolic execution of the real, de-hashed wn.validate checks on lexicons ' \
            'with symbolic ids/references/types/texts, each compared with an independent predicate'
ASSUMPTIONS = [
    'check conditions are read from the table in the wn.validate module docstring; item keys are '
    'compared exactly, context fields where the entity has a single offending relation',
]


# -- builders -------------------------------------------------------------------------

def _lex(entries, synsets, lid='L', frames=None):
    lx = {'id': lid, 'version': '1', 'label': 'l', 'language': 'en', 'email': 'e',
          'license': 'x', 'meta': None, 'entries': entries, 'synsets': synsets}
    if frames is not None:
        lx['frames'] = frames
    return lx


def _entry(eid, lemma, senses, forms=None):
    e = {'id': eid, 'meta': None, 'lemma': {'writtenForm': lemma, 'partOfSpeech': 'n'},
         'senses': senses}
    if forms is not None:
        e['forms'] = forms
    return e


def _sense(sid, synset, relations=None):
    s = {'id': sid, 'synset': synset, 'meta': None}
    if relations is not None:
        s['relations'] = relations
    return s


def _synset(ssid, ili='', pos='n', defs=None, examples=None, relations=None, ili_def=None):
    ss = {'id': ssid, 'ili': ili, 'partOfSpeech': pos, 'meta': None}
    if defs is not None:
        ss['definitions'] = [{'text': t, 'meta': None} for t in defs]
    if examples is not None:
        ss['examples'] = [{'text': t, 'meta': None} for t in examples]
    if relations is not None:
        ss['relations'] = relations
    if ili_def is not None:
        ss['ili_definition'] = {'text': ili_def, 'meta': None}
    return ss


def _rel(target, typ, dctype=None):
    return {'target': target, 'relType': typ, 'meta': ({'type': dctype} if dctype else None)}


# -- comparison -------------------------------------------------------------------------

def _has(items, x):
    for y in items:
        if y == x:
            return True
    return False


def _count(items, x):
    n = 0
    for y in items:
        if y == x:
            n += 1
    return n


def _keys_match(got, want_keys):
    """got: mapping; want_keys: list (duplicates allowed) - same key set."""
    gk = [k for k in got]
    for k in gk:
        if not _has(want_keys, k):
            return False
    for k in want_keys:
        if not _has(gk, k):
            return False
    # a mapping has no duplicate keys
    for i in range(len(gk)):
        for j in range(i + 1, len(gk)):
            if gk[i] == gk[j]:
                return False
    return True


def _ctx_ok(got, key, field, allowed):
    """the context field of item *key* is one of the allowed values"""
    ctx = got[key]
    if field not in ctx:
        return False
    return _has(allowed, ctx[field])


def _run(lex, code):
    rep = V.validate(lex, select=[code], progress_handler=None)
    keys = [k for k in rep]
    if not (len(keys) == 1 and keys[0] == code):
        return None
    ent = rep[code]
    if not ent['message']:
        return None
    return ent['items']


# -- obligations ------------------------------------------------------------------------
# G1: E101 duplicate ids of every kind

def h_e101(lid: str, e1: str, s1: str, ss1: str, f1: str, sb: str) -> bool:
    """
    pre: len(lid) == 1 and len(e1) == 1 and len(s1) == 1 and len(ss1) == 1
    pre: len(f1) == (rt.part(4)[0] % 2) and len(sb) == (rt.part(4)[0] // 2)
    post: _
    """
    e2 = 'e2'  # a second entry with a concrete id (its form ids are what the canary drops)
    forms = [{'writtenForm': 'w', 'id': f1}] if len(f1) else [{'writtenForm': 'w'}]
    frames = [{'subcategorizationFrame': 'x', 'id': sb}] if len(sb) else \
        [{'subcategorizationFrame': 'x'}]
    lex = _lex([_entry(e2, 'b', []), _entry(e1, 'a', [_sense(s1, ss1)], forms=forms)],
               [_synset(ss1)], lid=lid, frames=frames)
    got = _run(lex, 'E101')
    if got is None:
        return False
    pool = [lid, e1, e2, s1, ss1]
    if len(f1):
        pool.append(f1)
    if len(sb):
        pool.append(sb)
    want = [x for x in pool if _count(pool, x) > 1]
    ok = _keys_match(got, want)
    if ok:
        for x in want:
            if got[x]['count'] != _count(pool, x):
                ok = False
    return rt.verdict(ok)


# G2: W201 W202 W203 E204 W301 - entries, senses and their synsets

G2 = ['W201', 'W202', 'W203', 'E204', 'W301']


def h_words(r1: str, r2: str, r3: str, ss1: str, ss2: str, w1: str, w2: str,
            has2: bool, has3: bool) -> bool:
    """
    pre: len(r1) == 1 and len(r2) == 1 and len(r3) == 1 and len(ss1) == 1 and len(ss2) == 1
    pre: len(w1) == 1 and len(w2) == 1
    post: _
    """
    code = G2[rt.part(len(G2))[0]]
    sen1 = [_sense('s1', r1)] + ([_sense('s2', r2)] if has2 else [])
    sen2 = [_sense('s3', r3)] if has3 else []
    lex = _lex([_entry('e1', w1, sen1), _entry('e2', w2, sen2)],
               [_synset(ss1), _synset(ss2)])
    got = _run(lex, code)
    if got is None:
        return False
    refs = [('s1', 'e1', w1, r1)]
    if has2:
        refs.append(('s2', 'e1', w1, r2))
    if has3:
        refs.append(('s3', 'e2', w2, r3))
    ok = True
    if code == 'W201':
        ok = _keys_match(got, [] if has3 else ['e2'])
    elif code == 'W202':
        want = []
        for sid, eid, _w, r in refs:
            n = 0
            for _s2, e2_, _w2, r2_ in refs:
                if e2_ == eid and r2_ == r:
                    n += 1
            if n > 1:
                want.append(sid)
        ok = _keys_match(got, want)
        if ok:
            for sid, eid, _w, r in refs:
                if _has(want, sid):
                    if got[sid]['entry'] != eid or got[sid]['synset'] != r:
                        ok = False
    elif code == 'W203':
        want = []
        for _sid, _eid, w, r in refs:
            n = 0
            for _s2, _e2, w2_, r2_ in refs:
                if w2_ == w and r2_ == r:
                    n += 1
            if n > 1:
                want.append((w, r))
        ok = _keys_match(got, [w for w, _r in want])
        if ok:
            for w, _r in want:
                if not _ctx_ok(got, w, 'synset', [r for w_, r in want if w_ == w]):
                    ok = False
    elif code == 'E204':
        want = [sid for sid, _e, _w, r in refs if not (r == ss1 or r == ss2)]
        ok = _keys_match(got, want)
        if ok:
            for sid, _e, _w, r in refs:
                if _has(want, sid) and got[sid]['synset'] != r:
                    ok = False
    elif code == 'W301':
        want = [ss for ss in (ss1, ss2) if not _has([r for _s, _e, _w, r in refs], ss)]
        ok = _keys_match(got, want)
    return rt.verdict(ok)


# G3a: W302 W303 W304 - ILIs

G3A = ['W302', 'W303', 'W304']
ILIS = ['', 'in', 'i1', 'i2']


def _pick(options, k):
    for i in range(len(options)):
        if k == i:
            return options[i]
    return options[0]


def h_ili(i1: str, i2: str, i3: int, d1: bool, d2: bool, d3: bool) -> bool:
    """
    pre: len(i1) <= 2 and len(i2) <= 2
    pre: 0 <= i3 < 4
    post: _
    """
    code = G3A[rt.part(len(G3A))[0]]
    ili3 = _pick(ILIS, i3)
    spec = [('a', i1, d1), ('b', i2, d2), ('c', ili3, d3)]
    lex = _lex([], [_synset(n, ili=i, ili_def=('t' if d else None)) for n, i, d in spec])
    got = _run(lex, code)
    if got is None:
        return False
    ok = True
    if code == 'W302':
        want = []
        for n, i, _d in spec:
            if len(i) > 0 and i != 'in':
                cnt = 0
                for _n2, i2_, _d2 in spec:
                    if i2_ == i:
                        cnt += 1
                if cnt > 1:
                    want.append(n)
        ok = _keys_match(got, want)
        if ok:
            for n, i, _d in spec:
                if _has(want, n) and got[n]['ili'] != i:
                    ok = False
    elif code == 'W303':
        ok = _keys_match(got, [n for n, i, d in spec if i == 'in' and not d])
    elif code == 'W304':
        ok = _keys_match(got, [n for n, i, d in spec if len(i) > 0 and i != 'in' and d])
    return rt.verdict(ok)


# G3b: W305 W306 W307 - definition / example texts

G3B = ['W305', 'W306', 'W307']
BLANKS = ' \t\n\r\x0b\x0c\x1c\x1d\x1e\x1f\x85\xa0'


def _blank(t):
    """blank = nothing but white space (str.strip() semantics, checked via isspace)"""
    for ch in t:
        if not ch.isspace():
            return False
    return True


def h_text(t1: str, t2: str, t3: str, two: bool) -> bool:
    """
    pre: len(t1) <= 2 and len(t2) <= 2 and len(t3) <= 2
    post: _
    """
    code = G3B[rt.part(len(G3B))[0]]
    a_texts = [t1] + ([t2] if two else [])
    if code == 'W306':
        lex = _lex([], [_synset('a', examples=a_texts), _synset('b', examples=[t3]),
                        _synset('c')])
    else:
        lex = _lex([], [_synset('a', defs=a_texts), _synset('b', defs=[t3]), _synset('c')])
    got = _run(lex, code)
    if got is None:
        return False
    if code in ('W305', 'W306'):
        want = []
        if _blank(t1) or (two and _blank(t2)):
            want.append('a')
        if _blank(t3):
            want.append('b')
        ok = _keys_match(got, want)
    else:
        alltexts = a_texts + [t3]
        want = []
        for t in a_texts:
            if _count(alltexts, t) > 1 and not _has(want, 'a'):
                want.append('a')
        if _count(alltexts, t3) > 1:
            want.append('b')
        ok = _keys_match(got, want)
    return rt.verdict(ok)


# G4: relations.  Entities have concrete one-letter ids; relation targets are symbolic
# one-character strings (equal to any id or dangling as the solver chooses).

SYN_IDS = ['a', 'b']          # synsets
SEN_IDS = ['s', 't']          # senses (s in synset a, t in synset b)
G4 = ['E401', 'W403', 'W502']


def h_rel(t1: str, t2: str, t3: str, y1: str, y2: str, y3: str, dc: bool, same: bool) -> bool:
    """
    pre: len(t1) == 1 and len(t2) == 1 and len(t3) == 1
    pre: len(y1) <= 8 and len(y2) <= 8 and len(y3) <= 8
    post: _
    """
    code = G4[rt.part(len(G4))[0]]
    if same:
        y2 = y1
    # sense s: relations r1 (t1,y1) and r2 (t2,y2); synset b: relation r3 (t3,y3)
    r1 = _rel(t1, y1, 'x' if dc else None)
    r2 = _rel(t2, y2)
    r3 = _rel(t3, y3)
    lex = _lex([_entry('e', 'w', [_sense('s', 'a', [r1, r2]), _sense('t', 'b')])],
               [_synset('a'), _synset('b', relations=[r3])])
    got = _run(lex, code)
    if got is None:
        return False
    sense_rels = [('s', t1, y1, 'x' if dc else None), ('s', t2, y2, None)]
    syn_rels = [('b', t3, y3, None)]
    ok = True
    if code == 'E401':
        bad_s = [(t, y) for _s, t, y, _d in sense_rels
                 if not _has(SEN_IDS, t) and not _has(SYN_IDS, t)]
        bad_ss = [(t, y) for _s, t, y, _d in syn_rels if not _has(SYN_IDS, t)]
        want = (['s'] if bad_s else []) + (['b'] if bad_ss else [])
        ok = _keys_match(got, want)
        if ok and bad_s:
            ok = _has(bad_s, (got['s']['target'], got['s']['type']))
        if ok and bad_ss:
            ok = _has(bad_ss, (got['b']['target'], got['b']['type']))
    elif code == 'W403':
        dup = t1 == t2 and y1 == y2 and not dc
        ok = _keys_match(got, ['s'] if dup else [])
        if ok and dup:
            ok = got['s']['type'] == y1 and got['s']['target'] == t1 and 'dc:type' not in got['s']
    elif code == 'W502':
        loops_s = [(t, y) for s, t, y, _d in sense_rels if t == s]
        loops_ss = [(t, y) for s, t, y, _d in syn_rels if t == s]
        want = (['s'] if loops_s else []) + (['b'] if loops_ss else [])
        ok = _keys_match(got, want)
        if ok and loops_s:
            ok = _has(loops_s, (got['s']['target'], got['s']['type']))
        if ok and loops_ss:
            ok = _has(loops_ss, (got['b']['target'], got['b']['type']))
    return rt.verdict(ok)


# W402: relation types chosen by index from a pool that has, for each of the three
# inventories, members and non-members

POOL402 = ['antonym', 'other', 'also', 'hypernym', 'domain_topic', 'exemplifies', 'zzz', '']


def h_w402(t1: str, t2: str, k2: int, k3: int, dup: bool) -> bool:
    """
    pre: len(t1) == 1 and len(t2) == 1
    pre: 0 <= k2 < 8 and 0 <= k3 < 3
    post: _
    """
    t3 = 'a'
    y1, y2, y3 = POOL402[rt.part(8)[0]], _pick(POOL402, k2), _pick(['also', 'zzz', 'antonym'], k3)
    # dup: a synset reuses the id of sense t (a cross-kind duplicate, reported by E101): a
    # relation to that id is invalid if its type is invalid for either kind of target
    lex = _lex([_entry('e', 'w', [_sense('s', 'a', [_rel(t1, y1), _rel(t2, y2)]),
                                  _sense('t', 'b')])],
               [_synset('a'), _synset('b', relations=[_rel(t3, y3)])] + ([_synset('t')] if dup else []))
    got = _run(lex, 'W402')
    if got is None:
        return False
    syn_ids = SYN_IDS + (['t'] if dup else [])
    bad_s = []
    for t, y in ((t1, y1), (t2, y2)):
        if (_has(SEN_IDS, t) and y not in K.SENSE_RELATIONS) or \
                (_has(syn_ids, t) and y not in K.SENSE_SYNSET_RELATIONS):
            bad_s.append((t, y))
    bad_ss = [(t3, y3)] if y3 not in K.SYNSET_RELATIONS else []
    want = (['s'] if bad_s else []) + (['b'] if bad_ss else [])
    ok = _keys_match(got, want)
    if ok and bad_s:
        ok = _has(bad_s, (got['s']['target'], got['s']['type']))
    if ok and bad_ss:
        ok = _has(bad_ss, (got['b']['target'], got['b']['type']))
    return rt.verdict(ok)


# G5: W404 (reverse relations), W501 (hypernym pos); relation types chosen by symbolic
# index from a pool (the reverse table is consulted with concrete names)

POOL = ['hypernym', 'hyponym', 'similar', 'zzz', 'domain_topic', 'has_domain_topic']
POOL3 = ['similar', 'zzz']     # types of the sense relation
J3LO = 0 if rt.THOROUGH else 3   # quick tier: the sense relation is fixed (dangling 'z', 'zzz')
NP5 = len(POOL) + 1   # partitions 0..5: W404 with the first type fixed; 6: W501


def h_rev(t1: str, t2: str, j3: int, k1: int, k2: int, k3: int, p1: str, p2: str) -> bool:
    """
    pre: len(t1) == 1 and len(t2) == 1 and J3LO <= j3 < 4
    pre: 0 <= k1 < 6 and 0 <= k2 < 4 and J3LO // 3 <= k3 < 2
    pre: len(p1) == 1 and len(p2) == 1
    post: _
    """
    t3 = _pick(['t', 's', 'a', 'z'], j3)   # target of the sense relation
    part = rt.part(NP5)[0]
    code = 'W501' if part == NP5 - 1 else 'W404'
    y1, y2, y3 = _pick(POOL, k1), _pick(POOL, k2), _pick(POOL3, k3)
    if code == 'W404':
        y1 = POOL[part]
        p1 = p2 = 'n'
    else:
        t3, y3 = 'z', 'zzz' 
    # synset a (pos p1): r1 ; synset b (pos p2): r2 ; sense s (in a): r3 ; sense t (in b)
    lex = _lex([_entry('e', 'w', [_sense('s', 'a', [_rel(t3, y3)]), _sense('t', 'b')])],
               [_synset('a', pos=p1, relations=[_rel(t1, y1)]),
                _synset('b', pos=p2, relations=[_rel(t2, y2)])])
    got = _run(lex, code)
    if got is None:
        return False
    if code == 'W501':
        pos = [('a', p1), ('b', p2)]
        want = []
        for src, t, y, p in (('a', t1, y1, p1), ('b', t2, y2, p2)):
            if y == 'hypernym':
                for n, q in pos:
                    if n == t and q != p:
                        want.append(src)
        ok = _keys_match(got, want)
        return rt.verdict(ok)
    # W404
    regular = [('a', y1, t1), ('b', y2, t2)]
    if _has(SEN_IDS, t3):
        regular.append(('s', y3, t3))
    rev = [(k, K.REVERSE_RELATIONS[k]) for k in POOL + POOL3 if k in K.REVERSE_RELATIONS]
    want = []
    for src, y, t in regular:
        for k, r in rev:
            if k == y and not _has(regular, (t, r, src)):
                want.append((t, r, src))
    ok = _keys_match(got, [t for t, _r, _s in want])
    if ok:
        for t, _r, _s in want:
            if not _has([(r, s) for t_, r, s in want if t_ == t],
                        (got[t]['type'], got[t]['target'])):
                ok = False
    return rt.verdict(ok)


# G6: validate() never raises, returns exactly the selected codes in table order

ALL_CODES = ['E101', 'W201', 'W202', 'W203', 'E204', 'W301', 'W302', 'W303', 'W304', 'W305',
             'W306', 'W307', 'E401', 'W402', 'W403', 'W404', 'W501', 'W502']


def h_select(c1: int, junk: str, t1: str, r1: str) -> bool:
    """
    pre: 0 <= c1 < 19
    pre: len(junk) <= 1 and len(t1) == 1 and len(r1) == 1
    post: _
    """
    e = rt.part(4)[0] % 2 == 1
    w = rt.part(4)[0] // 2 == 1
    y1 = 'hypernym'
    select = []
    if e:
        select.append('E')
    if w:
        select.append('W')
    for i in range(18):
        if c1 == i:
            select.append(ALL_CODES[i])
    if len(junk):
        select.append(junk)
    # a lexicon that is wrong in solver-chosen ways
    lex = _lex([_entry('e', 'w', [_sense('s', r1, [_rel(t1, y1)])])],
               [_synset('a', relations=[_rel(t1, y1)]), _synset('a', ili='in')])
    rep = V.validate(lex, select=select, progress_handler=None)
    want = [c for c in ALL_CODES if _has(select, c) or _has(select, c[0])]
    got = [k for k in rep]
    ok = len(got) == len(want)
    if ok:
        for i in range(len(want)):
            if got[i] != want[i]:
                ok = False
        for c in want:
            if not rep[c]['message']:
                ok = False
    return rt.verdict(ok)


def _same_items(x, y):
    kx, ky = [k for k in x], [k for k in y]
    if len(kx) != len(ky):
        return False
    for k in kx:
        if not _has(ky, k):
            return False
        cx, cy = x[k], y[k]
        fx, fy = [f for f in cx], [f for f in cy]
        if len(fx) != len(fy):
            return False
        for f in fx:
            if not _has(fy, f) or cx[f] != cy[f]:
                return False
    return True


IND_TARGETS = ['b', 't', 'zz', 's']          # a synset, a sense, nothing, the source itself
IND_TYPES = ['domain_topic', 'antonym', 'hypernym', 'also']


def h_independent(kt1: int, ky1: int, kt2: int, ky2: int) -> bool:
    """
    pre: 0 <= kt1 < 4 and 0 <= ky1 < 4 and 0 <= kt2 < 4 and 0 <= ky2 < 4
    pre: kt1 == rt.part(4)[0]
    post: _
    """
    # 2-safety: what a check reports does not depend on which other checks were selected (the
    # id tables built by validate() are shared by all checks of one call)
    t1, y1 = IND_TARGETS[0], IND_TYPES[0]
    t2, y2 = IND_TARGETS[0], IND_TYPES[0]
    for n in range(4):
        if kt1 == n:
            t1 = IND_TARGETS[n]
        if ky1 == n:
            y1 = IND_TYPES[n]
        if kt2 == n:
            t2 = IND_TARGETS[n]
        if ky2 == n:
            y2 = IND_TYPES[n]
    lex = _lex([_entry('e', 'w', [_sense('s', 'a', [_rel(t1, y1), _rel(t2, y2)]), _sense('t', 'b')]),
                _entry('f', 'w', [_sense('u', 'zz')])],
               [_synset('a', relations=[_rel('b', 'hypernym')]), _synset('b', pos='v'),
                _synset('c', ili='in')])
    ok = True
    full = V.validate(lex, select=['E', 'W'], progress_handler=None)
    for c in ALL_CODES:
        alone = V.validate(lex, select=[c], progress_handler=None)
        ok = ok and _same_items(alone[c]['items'], full[c]['items'])
    return rt.verdict(ok)


def h_w403_mixed(b1: bool, b2: bool, b3: bool, b4: bool, d1: bool, d2: bool, d3: bool, d4: bool) -> bool:
    """
    post: _
    """
    # four relations of one synset: same type, target b or c, with or without dc:type
    slots = [('b' if b else 'c', 'x' if d else None) for b, d in ((b1, d1), (b2, d2), (b3, d3), (b4, d4))]
    lex = _lex([], [_synset('a', relations=[_rel(t, 'also', d) for t, d in slots]),
                    _synset('b'), _synset('c')])
    got = _run(lex, 'W403')
    if got is None:
        return False
    dups = []
    for i in range(4):
        for j in range(i + 1, 4):
            if slots[i] == slots[j]:
                dups.append(slots[i])
    ok = _keys_match(got, ['a'] if dups else [])
    if ok and dups:
        item = got['a']
        ok = item['type'] == 'also' and _has(dups, (item['target'], item['dc:type'] if 'dc:type' in item else None))
    return rt.verdict(ok)


REJ_SYNSET = ['a', 'b', 'zz']        # zz: not a synset of the new lexicon
REJ_TARGET = ['b', 's', 'zz', 'yy']  # a synset, a sense, two ids that are neither


def h_add_rejects(k_syn: int, k_t1: int, k_t2: int, other_has: bool) -> bool:
    """
    pre: 0 <= k_syn < 3 and 0 <= k_t1 < 4 and 0 <= k_t2 < 3
    post: _
    """
    # the last sentence of the property: E204 / E401 reported => add() rejects the lexicon,
    # whatever else is installed (another lexicon may own a synset with the dangling id)
    from vf import docs
    syn, t1, t2 = REJ_SYNSET[0], REJ_TARGET[0], REJ_SYNSET[0]
    for n in range(4):
        if k_syn == n:
            syn = REJ_SYNSET[n]
        if k_t1 == n:
            t1 = REJ_TARGET[n]
        if k_t2 == n:
            t2 = REJ_SYNSET[n]
    lex = _lex([_entry('e', 'w', [_sense('s', 'a', [_rel(t1, 'also')]), _sense('t', syn)])],
               [_synset('a', relations=[_rel(t2, 'also')]), _synset('b')], lid='N')
    rep = V.validate(lex, select=['E204', 'E401'], progress_handler=None)
    reported = len([k for k in rep['E204']['items']]) > 0 or len([k for k in rep['E401']['items']]) > 0
    db = rt.DB()
    rt.stub_normalizer()
    other = _lex([], [_synset('a'), _synset('b')] + ([_synset('zz'), _synset('yy')] if other_has else []),
                 lid='O')
    rt.quiet_add(docs.resource([other], '1.0'))
    before = db.dump()
    rejected = False
    try:
        rt.quiet_add(docs.resource([lex], '1.0'))
    except (wn.Error, sqlite3.IntegrityError):
        rejected = True
    ok = True
    if reported:
        ok = rejected and db.dump() == before and [lx.id for lx in wn.lexicons()] == ['O']
    return rt.verdict(ok)


def h_reverse_table(k: int) -> bool:
    """
    pre: 0 <= k < 200
    post: _
    """
    # REVERSE_RELATIONS is an involution on its domain (concrete table, read from the module)
    keys = sorted(K.REVERSE_RELATIONS)
    if k >= len(keys):
        return rt.verdict(True)
    a = keys[k]
    b = K.REVERSE_RELATIONS[a]
    return rt.verdict(b in K.REVERSE_RELATIONS and K.REVERSE_RELATIONS[b] == a)


_F = ['wn.validate.validate', 'wn.validate._select_checks', 'wn.validate._multiples']
OBLIGATIONS = [
    Ob('E101', 'h_e101', parts=4, canary_part=1, quick=dict(timeout=150), thorough=dict(timeout=600), canary='e101-forms',
       functions=_F + ['wn.validate._non_unique_id'],
       symbolic='lexicon id, entry id, sense id, synset id, optional form id and frame id',
       bounds='ids are strings of length 1 (any code point), so every equality pattern among '
              'the 6 ids (plus one concrete entry id) is covered; 2 entries, 1 sense, 1 synset, 1 form, '
              '1 frame'),
    Ob('words', 'h_words', parts=len(G2), quick=dict(timeout=150), thorough=dict(timeout=600),
       canary='e204-inverted', canary_part=3,
       functions=_F + ['wn.validate._has_no_senses', '_redundant_sense', '_redundant_entry',
                       '_missing_synset', '_empty_synset'],
       symbolic='3 synset references, 2 synset ids, 2 lemmas, presence of 2 senses',
       bounds='2 entries with 1-2 and 0-1 senses, 2 synsets; strings of length 1; one partition '
              'per code ' + ','.join(G2)),
    Ob('ili', 'h_ili', parts=len(G3A), quick=dict(timeout=150), thorough=dict(timeout=600),
       canary='w302-in', canary_part=0,
       functions=_F + ['_repeated_ili', '_missing_ili_definition', '_spurious_ili_definition'],
       symbolic='ILI of two synsets (any string of length <= 2), ILI of a third from '
                "{'', 'in', 'i1', 'i2'}, presence of ILIDefinition",
       bounds='3 synsets; one partition per code ' + ','.join(G3A)),
    Ob('texts', 'h_text', parts=len(G3B), quick=dict(timeout=150), thorough=dict(timeout=600),
       canary='w307-other-synset', canary_part=2,
       functions=_F + ['_blank_synset_definition', '_blank_synset_example',
                       '_repeated_synset_definition'],
       symbolic='3 definition/example texts of length <= 2 (any code point)',
       bounds='synset a with 1-2 texts, synset b with 1, synset c with none; one partition per '
              'code ' + ','.join(G3B)),
    Ob('relations', 'h_rel', parts=len(G4), quick=dict(timeout=200), thorough=dict(timeout=900),
       canary='e401-sense-only', canary_part=0,
       functions=_F + ['_missing_relation_target', '_invalid_relation_type',
                       '_redundant_relation', '_self_loop', 'wn.constants.*_RELATIONS'],
       symbolic='3 relation targets (length 1), 3 relation types (any string of length <= 8), '
                'dc:type present or not, parallel relation or not',

       bounds='2 senses, 2 synsets with concrete one-letter ids; 2 sense relations + 1 synset '
              'relation; one partition per code ' + ','.join(G4)),
    Ob('W402', 'h_w402', parts=8, quick=dict(timeout=200), thorough=dict(timeout=900),
       canary='w402-sense-synset', canary_part=1,
       functions=_F + ['_invalid_relation_type', 'wn.constants.SENSE_RELATIONS',
                       'SENSE_SYNSET_RELATIONS', 'SYNSET_RELATIONS'],
       symbolic='2 sense-relation targets (length 1: a sense, a synset or dangling); relation '
                'types by index into ' + str(POOL402) + ' (first one fixed per partition)',
       bounds='2 sense relations + 1 synset relation (type from also/zzz/antonym)'),
    Ob('reverse-and-pos', 'h_rev', parts=NP5, quick=dict(timeout=200),
       thorough=dict(timeout=900), canary=[('w404-no-guard', 0), ('w501-keyerror', NP5 - 1)],
       functions=_F + ['_missing_reverse_relation', '_hypernym_wrong_pos',
                       'wn.constants.REVERSE_RELATIONS'],
       symbolic='2 synset-relation targets (length 1), sense-relation target from t,s,a,z; '
                'relation types by index into ' + str(POOL)
                + ' / ' + str(POOL3) + ', 2 parts of speech (length 1)',
       bounds='W404: 2 synset relations + 1 sense relation (symbolic only in the thorough tier), '
              'first type fixed per partition; '
              'W501: 2 synset relations with symbolic parts of speech'),
    Ob('select', 'h_select', parts=4, quick=dict(timeout=200), thorough=dict(timeout=900),
       canary='select-category', canary_part=0,
       functions=['wn.validate.validate', 'wn.validate._select_checks', 'all 18 check functions'],
       symbolic='select: categories E/W, one code by index (or none), one arbitrary string; a '
                'lexicon broken in solver-chosen ways (dangling references, duplicate synset id)',
       bounds='report keys compared with the documented table order; every selected check runs '
              'without raising'),
    Ob('independence', 'h_independent', parts=4, quick=dict(timeout=200),
       thorough=dict(timeout=600), canary=[('shared-ids-merged', 0)],
       functions=['wn.validate.validate', 'all 18 check functions (shared id tables)'],
       symbolic='targets (a synset, a sense, nothing, the source) and types (' + ', '.join(IND_TYPES)
                + ') of two sense relations',
       bounds='for every check: items when selected alone = items in a run of all 18 checks'),
    Ob('W403-mixed-dctype', 'h_w403_mixed', quick=dict(timeout=200), thorough=dict(timeout=600),
       canary=[('w403-ignores-dctype', 0)], functions=['wn.validate._redundant_relation', '_multiples'],
       symbolic='four relations of one synset: target (2 values) and presence of dc:type each',
       bounds='redundant = same source, type, target and dc:type; never raises'),
    Ob('add-rejects', 'h_add_rejects', quick=dict(timeout=250), thorough=dict(timeout=600),
       canary=[('synset-from-any-lexicon', 0)],
       functions=['wn.validate._missing_synset', '_missing_relation_target',
                  'wn._add.add_lexical_resource', '_insert_senses', '_insert_synset_relations',
                  '_insert_sense_relations', 'SYNSET_QUERY / SENSE_QUERY'],
       stubs=['vf.sqlmodel', 'normalize_form = identity'],
       symbolic='the synset a sense refers to, the target of a sense relation and of a synset '
                'relation (existing or dangling), whether another installed lexicon owns synsets '
                'with the dangling ids',
       bounds='E204 or E401 reported => add() raises, the database is unchanged'),
    Ob('reverse-table', 'h_reverse_table', quick=dict(timeout=60), canary=None,
       functions=['wn.constants.REVERSE_RELATIONS'], symbolic='table index',
       bounds='every key of the table'),
]
