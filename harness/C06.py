"""C06 - a failed add or remove leaves the database exactly as it was.

The point of failure is a symbolic integer k: the k-th SQL call (execute / executemany) or
progress-handler callback of the run raises; or one reference of the document is corrupted
at a symbolic position and the real code / the schema constraints produce the failure.
"""
from vf import rt
from vf.chx import Ob

CANARIES = {
    'commit-per-lexicon': ('wn._add', "            progress.flash(f\"Added {spec} ({lexicon['label']})\\n\")",
                           "            progress.flash(f\"Added {spec} ({lexicon['label']})\\n\")\n"
                           "            conn.commit()"),
    'lookup-outside-transaction': ('wn._add', "            _update_lookup_tables(lexicon, cur)",
                                   "            _update_lookup_tables(lexicon, cur)\n"
                                   "            conn.commit()"),
    'remove-per-extension': ('wn._add', "                    conn.execute('DELETE from lexicons WHERE rowid = ?', (ext_id,))",
                             "                    conn.execute('DELETE from lexicons WHERE rowid = ?', (ext_id,))\n"
                             "                    conn.commit()"),
    'swallow-relation-target': ('wn._add', "                    raise wn.Error(\n                        f'relation target is not a known sense or synset: {target_id}'\n                    )",
                                "                    continue"),
}
rt.setup(canaries=CANARIES)

import sqlite3  # noqa: E402
import wn  # noqa: E402
import wn._add as A  # noqa: E402
from vf import docs  # noqa: E402

TECHNIQUE = 'CrossHair symbolic execution of the real add_lexical_resource / remove over an ' \
            'executable SQL model with transaction semantics; the failing call index and the ' \
            'corrupted reference are symbolic'
ASSUMPTIONS = [
    'SQLite is replaced by vf.sqlmodel incl. its transaction semantics (implicit BEGIN before '
    'DML, `with conn` = commit / rollback); ROLLBACK itself is trusted to restore the snapshot',
    'a fault is an exception raised from the k-th execute()/executemany() call or progress '
    'callback; crash consistency (power loss with synchronous=OFF) is outside the property',
]

KMAX = 192 if rt.THOROUGH else 128
NPARTS = 16


def _pre_existing():
    # P declares dependencies on lexicons of the resource that is added next: the add re-links
    # them (UPDATE lexicon_dependencies) inside its transaction
    return docs.resource([docs.lexicon_small(docs.P(), 'P', tag='p', ili='i1',
                                             requires=[{'id': 'A', 'version': '1'},
                                                       {'id': 'M', 'version': '1'}])], '1.1')


def _victim():
    p = docs.P({'mili1': 'i7'})    # its own ILI (a shared, already known ILI keeps its definition)
    lexs = [docs.lexicon_small(p, 'A', tag='a', ili='i1'),
            docs.lexicon_rich(p, lid='M', style='1.1', tag='m')]
    if rt.THOROUGH:
        # thorough tier: the resource also holds an extension of the pre-existing lexicon
        lexs.append(docs.extension_small(p, 'X', base=('P', '1'), tag='x', btag='p'))
    return docs.resource(lexs, '1.1')


_WANT = ['P', 'A', 'M'] + (['X'] if rt.THOROUGH else [])


def _krange():
    i, n = rt.part(NPARTS)
    step = KMAX // n
    return 1 + i * step, (i + 1) * step if i < n - 1 else KMAX


def _ours(exc):
    return isinstance(exc, (rt.Boom, rt.HardBoom)) or \
        (isinstance(exc, sqlite3.OperationalError) and 'injected' in str(exc))


def h_add_fault(k: int, hard: bool, both: bool) -> bool:
    """
    pre: _krange()[0] <= k <= _krange()[1]
    post: _
    """
    # both: SQL calls and progress callbacks counted interleaved; otherwise progress
    # callbacks only.  hard: the failure is a BaseException (like KeyboardInterrupt)
    which = 0 if both else 2
    db, f = rt.fault_db()
    rt.stub_normalizer()
    A.BATCH_SIZE = 2
    rt.quiet_add(_pre_existing())
    before = db.dump()
    doc = _victim()
    f.arm(k, hard=hard, sql=which != 2, progress=which != 1)
    failed = False
    try:
        wn.add_lexical_resource(doc, progress_handler=f.progress_class())
    except BaseException as exc:  # noqa: BLE001
        if not _ours(exc):
            raise
        failed = True
    f.disarm()
    ok = True
    if failed:
        # nothing of the resource, no partial rows, no new lookup values
        ok = db.dump() == before and not db.in_transaction()
        if ok:
            # the library stays usable: a following add of the same data gives the normal result
            rt.quiet_add(doc)
    if ok:
        ok = [lx.id for lx in wn.lexicons()] == _WANT and not db.in_transaction()
        ok = ok and docs.observe_lexicon(wn, 'M:1') == docs.project_lexicon(doc['lexicons'][1])
    return rt.verdict(ok)


def _corrupt(doc, j):
    """Corrupt one reference / identifier of the rich lexicon at position j."""
    lex = doc['lexicons'][1]
    e1, e2 = lex['entries']
    ss1 = lex['synsets'][0]
    if j == 0:
        e1['senses'][1]['synset'] = 'nope'                      # sense -> missing synset
    elif j == 1:
        e2['senses'][0]['synset'] = 'nope'
    elif j == 2:
        ss1['relations'][0]['target'] = 'nope'                 # synset relation target
    elif j == 3:
        e1['senses'][0]['relations'][0]['target'] = 'nope'     # sense relation target
    elif j == 4:
        e1['senses'][0]['relations'][1]['target'] = 'nope'     # sense-synset relation target
    elif j == 5:
        e2['id'] = e1['id']                                     # duplicate entry id
    elif j == 6:
        e1['forms'][1]['writtenForm'] = e1['forms'][0]['writtenForm']   # duplicate form
        e1['forms'][1]['script'] = e1['forms'][0]['script'] = 'Latn'   # (NULL scripts never clash)
    elif j == 7:
        ss1['definitions'][0]['sourceSense'] = 's1'            # fine: control case, no fault
    return doc


def h_corrupt(j: int, first: bool) -> bool:
    """
    pre: 0 <= j <= 7
    post: _
    """
    db = rt.DB()
    rt.stub_normalizer()
    A.BATCH_SIZE = 2
    rt.quiet_add(_pre_existing())
    before = db.dump()
    doc = _victim()
    if first:
        doc['lexicons'].reverse()          # the broken lexicon first / second in the resource
    # locate the rich lexicon regardless of order
    rich = [lx for lx in doc['lexicons'] if lx['id'] == 'M'][0]
    _corrupt({'lexicons': [None, rich]}, j)
    raised = False
    try:
        rt.quiet_add(doc)
    except (wn.Error, sqlite3.IntegrityError):
        raised = True
    if j == 7:
        return rt.verdict(not raised and [lx.id for lx in wn.lexicons()][0] == 'P'
                          and len(wn.lexicons()) == len(_WANT))
    ok = raised and db.dump() == before and not db.in_transaction()
    if ok:
        good = _victim()
        rt.quiet_add(good)
        ok = sorted(lx.id for lx in wn.lexicons()) == sorted(_WANT)
        ok = ok and docs.observe_lexicon(wn, 'M:1') == docs.project_lexicon(good['lexicons'][1])
    return rt.verdict(ok)


def h_remove_fault(k: int, hard: bool, which: int) -> bool:
    """
    pre: 1 <= k <= 12
    pre: 0 <= which <= 2
    post: _
    """
    db, f = rt.fault_db()
    rt.stub_normalizer()
    p = docs.P()
    rt.quiet_add(docs.resource([docs.lexicon_small(p, 'B', tag='b', ili='i1'),
                                docs.lexicon_small(p, 'U', tag='u', ili='i1')], '1.1'))
    rt.quiet_add(docs.resource([docs.extension_small(p, 'X', base=('B', '1'), tag='x', btag='b')],
                               '1.1'))
    before = db.dump()
    f.arm(k, hard=hard, sql=which != 2, progress=which != 1)
    failed = False
    try:
        wn.remove('B:1', progress_handler=f.progress_class())
    except BaseException as exc:  # noqa: BLE001
        if not _ours(exc):
            raise
        failed = True
    f.disarm()
    if failed:
        ok = db.dump() == before and not db.in_transaction()
        ok = ok and [lx.id for lx in wn.lexicons()] == ['B', 'U', 'X']
    else:
        ok = [lx.id for lx in wn.lexicons()] == ['U'] and not db.in_transaction()
    return rt.verdict(ok)


_F = ['wn._add.add_lexical_resource', '_add_lexical_resource', '_precheck',
      '_update_lookup_tables', 'all _insert_* functions', 'wn._add.remove',
      '_find_all_extensions', 'the `with connect() as conn` / `with conn` transaction scopes']
OBLIGATIONS = [
    Ob('add-fault-at-k', 'h_add_fault', parts=NPARTS, quick=dict(timeout=240),
       thorough=dict(timeout=900),
       canary=[('commit-per-lexicon', 6), ('lookup-outside-transaction', 8)],
       functions=_F[:5],
       symbolic='k (which call fails), whether the failure is an Exception or a BaseException, '
                'which call family is counted (SQL + progress callbacks interleaved, or progress '
                'callbacks only)',
       bounds=f'resource of two lexicons (small + rich skeleton) added to a database that '
              f'already holds one lexicon; k = 1..{KMAX} (the run makes fewer calls; larger k = '
              f'no fault); BATCH_SIZE = 2',
       stubs=['vf.sqlmodel', 'progress handler raising at its k-th callback',
              'normalize_form = identity']),
    Ob('corrupted-reference', 'h_corrupt', quick=dict(timeout=200), thorough=dict(timeout=600),
       canary='swallow-relation-target',
       functions=_F[:5] + ['schema NOT NULL / UNIQUE constraints (through the model)'],
       symbolic='which reference is corrupted (7 positions + control), order of the lexicons in '
                'the resource',
       bounds='sense->synset (2 positions), synset relation target, sense relation target, '
              'sense-synset relation target, duplicate entry id, duplicate form',
       stubs=['vf.sqlmodel', 'normalize_form = identity']),
    Ob('remove-fault-at-k', 'h_remove_fault', quick=dict(timeout=200),
       thorough=dict(timeout=600), canary='remove-per-extension',
       functions=_F[5:],
       symbolic='k, Exception vs BaseException, call family',
       bounds='database with base B, its extension X and an unrelated lexicon U; remove(B:1); '
              'k = 1..12',
       stubs=['vf.sqlmodel', 'progress handler raising at its k-th callback']),
]
