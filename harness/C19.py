"""C19 - loading an ILI index only updates ILI status and definitions.

Document-driven: a lexicon using ILIs i1 (with an ILI definition of its own), i2 and a proposed
ILI; index files whose rows (id, status, definition, missing columns, header case) are chosen by
symbolic indexes; the real _add_ili (upsert SQL on the model) and _ili.load (on a fake file)
run in four interleavings with add_lexical_resource.
"""
from vf import rt
from vf.chx import Ob

CANARIES = {
    'replace-instead-of-upsert': ('wn._add', "        INSERT INTO ilis\n        VALUES (null,?,({ILISTAT_QUERY}),?,null)\n            ON CONFLICT(id) DO\n               UPDATE SET status_rowid=excluded.status_rowid,\n                          definition=excluded.definition",
                                  "        INSERT OR IGNORE INTO ilis\n        VALUES (null,?,({ILISTAT_QUERY}),?,null)"),
    'only-upgrade-presupposed': ('wn._add', "               UPDATE SET status_rowid=excluded.status_rowid,\n                          definition=excluded.definition\n",
                                 "               UPDATE SET status_rowid=excluded.status_rowid,\n                          definition=excluded.definition\n"
                                 "               WHERE ilis.status_rowid = (SELECT rowid FROM ili_statuses WHERE status = 'presupposed')\n"),
    'definition-kept': ('wn._add', "                          definition=excluded.definition\n    '''", "                          definition=ilis.definition\n    '''"),
    'header-case': ('wn._ili', "        fields = tuple(map(str.lower, header.split('\\t')))", "        fields = tuple(header.split('\\t'))"),
    'default-status': ('wn._add', "                 info.get('status', 'active'),\n                 info.get('definition'))", "                 info.get('status', 'presupposed'),\n                 info.get('definition'))"),
}
rt.setup(canaries=CANARIES)

import wn  # noqa: E402
import wn._add as A  # noqa: E402
import wn._ili as I  # noqa: E402
from wn.util import ProgressHandler  # noqa: E402
from vf import docs  # noqa: E402

TECHNIQUE = 'CrossHair symbolic execution of the real _add_ili (upsert on the SQL model), _ili.load ' \
            '(fake file) and add_lexical_resource in four interleavings, rows chosen by symbolic index'
ASSUMPTIONS = ['SQLite replaced by vf.sqlmodel (ON CONFLICT DO UPDATE modelled)',
               'the index file is a fake file object whose lines are built from the chosen values']

IDS = ['i1', 'i2', 'i7']
STATUSES = ['active', 'provisional', 'deprecated', 'odd status']
DEFS = ['"quoted" def', '', 'd one']
ORDERS = ['index,lex', 'lex,index', 'index,lex,index2', 'lex,index,index']


def _pick(options, k):
    for n in range(len(options)):
        if k == n:
            return options[n]
    return options[0]


class _FakeFile:
    def __init__(self, lines):
        self._lines = lines

    def __enter__(self):
        return iter(self._lines)

    def __exit__(self, *a):
        return False


class _FakePath:
    FILES = {}

    def __init__(self, name):
        self.name = str(name)

    def expanduser(self):
        return self

    def is_file(self):
        return self.name in _FakePath.FILES

    def open(self, *a, **k):
        return _FakeFile(list(_FakePath.FILES[self.name]))

    def __str__(self):
        return self.name


def _lines(rows, upper):
    head = 'ILI\tStatus\tDefinition' if upper else 'ili\tstatus\tdefinition'
    out = [head + '\n']
    for rid, st, df, short in rows:
        out.append((rid if short else f'{rid}\t{st}\t{df}') + '\r\n')
    return out


def _lexicon():
    p = docs.P()
    lex = docs.lexicon_small(p, 'L', tag='', ili='i1', ili2='i2', two=True)
    lex['synsets'][0]['ili_definition'] = {'text': 'lexdef', 'meta': None}
    lex['synsets'].append({'id': 'ss3', 'ili': 'in', 'partOfSpeech': 'n', 'meta': None,
                           'ili_definition': {'text': 'proposed def', 'meta': None}})
    return lex


def _apply(final, rows):
    for rid, st, df, short in rows:
        final[rid] = ('active', None) if short else (st, df)


def h_interleave(a_id: int, a_st: int, a_df: int, a_short: bool, b_id: int, b_st: int, b_df: int,
                 upper: bool, c_st: int) -> bool:
    """
    pre: 0 <= a_id < 3 and 0 <= a_st < 4 and 0 <= a_df < 3 and 0 <= b_id < 3 and 0 <= b_st < 4
    pre: 0 <= b_df < 3 and 0 <= c_st < 4
    pre: a_id == rt.part(36)[0] % 3 and b_id == (rt.part(36)[0] // 3) % 3
    pre: rt.THOROUGH or (b_df == 0 and c_st == 1 and a_st < 3 and b_st < 3 and a_df < 2 and upper == a_short)
    post: _
    """
    order = ORDERS[rt.part(36)[0] // 9].split(',')
    rows1 = [(_pick(IDS, a_id), _pick(STATUSES, a_st), _pick(DEFS, a_df), a_short),
             (_pick(IDS, b_id), _pick(STATUSES, b_st), _pick(DEFS, b_df), False)]
    rows2 = [(_pick(IDS, b_id), _pick(STATUSES, c_st), 'newer', False)]
    I.Path = _FakePath
    _FakePath.FILES = {'index.tsv': _lines(rows1, upper), 'index2.tsv': _lines(rows2, not upper)}
    lex = _lexicon()
    db = rt.DB()
    rt.stub_normalizer()
    ok = True
    final = {}
    have_lex = False
    for op in order:
        if op == 'lex':
            rt.quiet_add(docs.resource([lex], '1.1'))
            have_lex = True
        else:
            before_obs = docs.observe_lexicon(wn, 'L:1') if have_lex else None
            before = db.dump()
            name = 'index.tsv' if op == 'index' else 'index2.tsv'
            A._add_ili(_FakePath(name), ProgressHandler(message=''))
            _apply(final, rows1 if op == 'index' else rows2)
            after = db.dump()
            # nothing but the ILI inventory changed
            for t in before:
                if t not in ('ilis', 'ili_statuses'):
                    ok = ok and before[t] == after[t]
            # rowids of ILIs that existed stay what they were
            old = {r[1]: r[0] for r in before['ilis']}
            new = {r[1]: r[0] for r in after['ilis']}
            for k, v in old.items():
                ok = ok and new.get(k) == v
            if have_lex:
                obs = docs.observe_lexicon(wn, 'L:1')
                # the lexicon content is unchanged apart from the ILI status / definition
                for sa, sb in zip(before_obs['synsets'], obs['synsets']):
                    ok = ok and sa[:2] == sb[:2] and sa[3:] == sb[3:]
                    ok = ok and (sa[2] is None) == (sb[2] is None)
                    if sa[2] is not None:
                        ok = ok and sa[2][0] == sb[2][0]
                ok = ok and before_obs['words'] == obs['words'] and before_obs['senses'] == obs['senses']
            ok = ok and not db.in_transaction()
    # expected final inventory
    want = dict(final)
    for iid, dfn in (('i1', 'lexdef'), ('i2', None)):
        if iid not in want:
            want[iid] = ('presupposed', dfn)
    # the API lists the ILIs that installed lexicons use; ILIs only the index knows are checked
    # in the table itself
    used = ('i1', 'i2')
    got = sorted(((i.id, i.status, i.definition()) for i in wn.ilis() if i.id), key=repr)
    ok = ok and got == sorted(((k, v[0], v[1]) for k, v in want.items() if k in used), key=repr)
    dump = db.dump()
    stat = {r[0]: r[1] for r in dump['ili_statuses']}
    table = sorted(((r[1], stat[r[2]], r[3]) for r in dump['ilis']), key=repr)
    ok = ok and table == sorted(((k, v[0], v[1]) for k, v in want.items()), key=repr)
    w = wn.Wordnet('L:1')
    ok = ok and w.synset('ss1').ili.id == 'i1' and w.synset('ss1').ili.status == want['i1'][0]
    ok = ok and w.synset('ss1').ili.definition() == want['i1'][1]
    prop = w.synset('ss3').ili
    ok = ok and prop.id is None and prop.status == 'proposed' and prop.definition() == 'proposed def'
    ok = ok and [i.status for i in wn.ilis(status='proposed')] == ['proposed']
    for st in STATUSES:
        ok = ok and sorted(i.id for i in wn.ilis(status=st)) == \
            sorted(k for k, v in want.items() if v[0] == st and k in used)
    return rt.verdict(ok)


BYTES = [105, 108, 73, 76, 9, 120]      # i l I L tab x


def h_is_ili(k0: int, k1: int, k2: int, k3: int, n: int) -> bool:
    """
    pre: 0 <= k0 < 6 and 0 <= k1 < 6 and 0 <= k2 < 6 and 0 <= k3 < 3 and 0 <= n <= 4
    pre: k0 == rt.part(6)[0]
    post: _
    """
    bs = [_pick(BYTES, k) for k in (k0, k1, k2, 4 + k3)][:n]
    data = bytes(bs) + b'\tstatus\n'
    I.Path = _FakePath
    _FakePath.FILES = {'f': [data]}
    first = bytes(bs)
    cut = first.split(b'\t')[0] if b'\t' in first else first
    want = cut in (b'ili', b'ILI')
    return rt.verdict(I.is_ili('f') == want and I.is_ili('missing') is False)


_F = ['wn._add._add_ili', 'wn._ili.load', 'wn._add._insert_synsets (presupposed / proposed ILIs)',
      'wn._queries.find_ilis', '_find_existing_ilis', 'find_proposed_ilis', 'wn._core.Synset.ili',
      'wn._core.ILI', 'wn._core.ilis']
OBLIGATIONS = [
    Ob('interleavings', 'h_interleave', parts=36, twin_parts=[0, 10, 20, 30], quick=dict(timeout=200),
       thorough=dict(timeout=1500),
       canary=[('replace-instead-of-upsert', 9), ('only-upgrade-presupposed', 18),
               ('definition-kept', 9), ('header-case', 0), ('default-status', 1)],
       functions=_F, stubs=['vf.sqlmodel', 'fake index file', 'normalize_form = identity'],
       symbolic='two rows of the index (id from ' + str(IDS) + ', status from ' + str(STATUSES)
                + ', definition from ' + str(DEFS) + ', a row with missing columns), header case, the '
                'status a second, newer index gives',
       bounds='one lexicon using i1 (own ILI definition), i2 and a proposed ILI; interleavings '
              + str(ORDERS) + ' (one partition each)'),
    Ob('is-ili', 'h_is_ili', parts=6, twin_parts=[0], quick=dict(timeout=120), canary=None,
       functions=['wn._ili.is_ili'], stubs=['fake file'],
       symbolic='the first 0-4 bytes of the file, each from i l I L tab x', bounds='followed by a tab'),
]
