"""C10 - navigation between words, senses and synsets is referentially faithful.

Table-symbolic: entries / synsets / senses rows whose ids and owning lexicons are symbolic
(the solver decides which ids coincide across lexicons).  Document-driven: base + extension
+ a lexicon reusing the base's ids + a lexicon of another language, with symbolic ILI
assignment and symbolic Wordnet selection.
"""
from vf import rt
from vf.chx import Ob

CANARIES = {
    'word-by-id-anywhere': ('wn._core', "        lexids = self._home_lexicon_ids()\n        iterable = find_entries(id=self._entry_id, lexicon_rowids=lexids)",
                            "        lexids = self._wordnet._lexicon_ids\n        iterable = find_entries(id=self._entry_id, lexicon_rowids=lexids)"),
    'members-own-lexicon-only': ('wn._core', "        lexids = self._get_lexicon_ids()\n        iterable = get_synset_members(self._id, lexids)",
                                 "        lexids = (self._lexid,)\n        iterable = get_synset_members(self._id, lexids)"),
    'translate-inside-source': ('wn._core', "        return synsets(ili=ili, lang=lang, lexicon=lexicon)",
                                "        return self._wordnet.synsets(ili=ili) if not (lang or lexicon) else "
                                "synsets(ili=ili, lang=lang, lexicon=lexicon)"),
    'eq-ignores-type': ('wn._core', "        return (self._ENTITY_TYPE == other._ENTITY_TYPE\n                and self._id == other._id)",
                        "        return self._id == other._id"),
    'default-scope-no-ext-of-ext': ('wn._core', "                | set(get_lexicon_extensions(self._lexid))",
                                    "                | (set(get_lexicon_extensions(self._lexid))\n"
                                    "                   if not get_lexicon_extension_bases(self._lexid) else set())"),
    'synset-hash-by-wordnet': ('wn._core', "        return hash((self._ENTITY_TYPE, self._ili, self._lexid, self._id))",
                               "        return hash((self._ENTITY_TYPE, self._ili, self._lexid, self._id,\n"
                               "                     self._wordnet._lexicon_ids))"),
    'relation-eq-ignores-lexicon': ('wn._core', "            and self._lexicon == other._lexicon\n", ""),
}
rt.setup(canaries=CANARIES)

import wn  # noqa: E402
from wn import _core  # noqa: E402
from vf import docs  # noqa: E402

TECHNIQUE = 'CrossHair symbolic execution of the real navigation methods over the SQL model; ' \
            'ids and owners of table rows symbolic (table level), ILI assignment and Wordnet ' \
            'selection symbolic (document level)'
ASSUMPTIONS = [
    'SQLite replaced by vf.sqlmodel; table-level rows are filled directly and satisfy the '
    "schema's constraints and the ownership pattern that add_lexical_resource establishes "
    '(an entity is referenced only from its own lexicon or from an extension of it)',
]


def _mkwn(lexids):
    w = object.__new__(_core.Wordnet)
    w._lexicons = ()
    w._lexicon_ids = tuple(lexids)
    w._expanded = ()
    w._expanded_ids = ()
    w._default_mode = False
    w._normalizer = None
    w.lemmatizer = None
    w._search_all_forms = True
    return w


def _lexrow(i, lid):
    return [i, lid, 'label', 'en', 'e', 'lic', '1', None, None, None, None, False]


def h_table(e1: str, e2: str, ss1: str, ss2: str, own2: bool, sel: int, sense_on_2: bool) -> bool:
    """
    pre: len(e1) == 1 and len(e2) == 1 and len(ss1) == 1 and len(ss2) == 1
    pre: 0 <= sel <= 2
    pre: own2 or (e1 != e2 and ss1 != ss2)
    post: _
    """
    # entry/synset 1 belong to lexicon 1; entry/synset 2 to lexicon 2 (own2) or 1; ids may
    # coincide across lexicons.  Sense a is declared under entry 1 / synset 1 by lexicon 1;
    # sense b under entry 2 / synset 2 (or, if not sense_on_2, under entry 1 / synset 2).
    db = rt.DB()
    l2 = 2 if own2 else 1
    db.insert_rows('lexicons', [_lexrow(1, 'L1'), _lexrow(2, 'L2')])
    db.insert_rows('entries', [[1, e1, 1, 'n', None], [2, e2, l2, 'n', None]])
    db.insert_rows('forms', [[1, None, 1, 1, 'f1', None, None, 0], [2, None, l2, 2, 'f2', None, None, 0]])
    db.insert_rows('synsets', [[1, ss1, 1, None, 'n', True, None, None],
                               [2, ss2, l2, None, 'n', True, None, None]])
    be = 2 if sense_on_2 else 1
    bl = l2 if sense_on_2 else 1
    if not sense_on_2 and own2:
        return rt.verdict(True)      # a sense of lexicon 1 may not reference a synset of lexicon 2
    db.insert_rows('senses', [[1, 'a', 1, 1, 0, 1, 0, True, None],
                              [2, 'b', bl, be, 0 if sense_on_2 else 1, 2, 0, True, None]])
    lexids = [(1, 2), (1,), (2,)][sel]
    w = _mkwn(lexids)
    senses = w.senses()
    ok = sorted(s.id for s in senses) == sorted(x for x, lx in (('a', 1), ('b', bl)) if lx in lexids)
    for s in senses:
        want_e, want_ss = (1, 1) if s._id == 1 else (be, 2)
        wd, ss = s.word(), s.synset()
        ok = ok and wd._id == want_e and ss._id == want_ss
        ok = ok and s in wd.senses() and s in ss.senses()
        ok = ok and [x._id for x in wd.synsets()] == [x.synset()._id for x in wd.senses()]
        ok = ok and [x._id for x in ss.words()] == [x.word()._id for x in ss.senses()]
        ok = ok and [str(f) for f in ss.lemmas()] == [str(x.word().lemma()) for x in ss.senses()]
        # equality and hashing
        again = [x for x in w.senses() if x._id == s._id][0]
        ok = ok and again == s and again.__hash__() == s.__hash__()
        ok = ok and not (s == wd) and not (wd == ss) and not (ss == s)
        ok = ok and wd == w.words()[[x._id for x in w.words()].index(wd._id)]
        ok = ok and wd.__hash__() == w.words()[[x._id for x in w.words()].index(wd._id)].__hash__()
    for x in senses:
        for y in senses:
            ok = ok and ((x == y) == (x._id == y._id))
    return rt.verdict(ok)


def _entity(kind, rowid, lexid, ident, ili, w):
    if kind == 0:
        return _core.Word(ident, 'n', [('f', None, None, 1)], _lexid=lexid, _id=rowid, _wordnet=w)
    if kind == 1:
        return _core.Sense(ident, 'e', 's', _lexid=lexid, _id=rowid, _wordnet=w)
    return _core.Synset(ident, 'n', ili=ili, _lexid=lexid, _id=rowid, _wordnet=w)


def h_eqhash(ka: int, kb: int, ra: int, rb: int, la: int, lb: int, ia: str, ib: str,
             na: str, nb: str, wsame: bool) -> bool:
    """
    pre: 0 <= ka <= 2 and 0 <= kb <= 2 and 1 <= ra <= 3 and 1 <= rb <= 3
    pre: 1 <= la <= 2 and 1 <= lb <= 2 and len(ia) <= 1 and len(ib) <= 1
    pre: len(na) == 1 and len(nb) == 1
    pre: not (ka == kb and ra == rb) or (la == lb and ia == ib and na == nb)
    post: _
    """
    # Two entity objects as the query layer builds them from rows: kind, rowid, owning
    # lexicon, id string and ILI symbolic.  The only assumption is the functional dependency
    # of the tables (same table and rowid => same columns).  The two objects come from
    # different Wordnet objects (different selections) unless wsame.
    w1 = _mkwn((1, 2))
    w2 = w1 if wsame else _mkwn((2,))
    a = _entity(ka, ra, la, na, ia or None, w1)
    b = _entity(kb, rb, lb, nb, ib or None, w2)
    same = ka == kb and ra == rb
    ok = (a == b) == same and (b == a) == same and (a != b) == (not same)
    ok = ok and a == a and a.__hash__() == a.__hash__()
    if same:
        ok = ok and a.__hash__() == b.__hash__()
        ok = ok and (a in [b]) and [a].index(b) == 0
    # relations as value objects: equal exactly when all five identifying fields agree
    r1 = _core.Relation('hypernym', na, nb, 'L:1', metadata=({'type': ia} if ia else None))
    r2 = _core.Relation('hypernym', nb, na, 'L:1' if la == lb else 'M:1',
                        metadata=({'type': ib} if ib else None))
    rsame = na == nb and la == lb and (ia or None) == (ib or None)
    ok = ok and (r1 == r2) == rsame
    if rsame:
        ok = ok and r1.__hash__() == r2.__hash__()
    return rt.verdict(ok)


ILIS = ['i1', 'i2', '', 'in']
SELECTIONS = [None, 'A:1', 'A:1 X:1', 'A:1 B:1', 'B:1 A:1', 'X:1', 'C:1', 'A:1 X:1 XX:1']


def _pick(options, k):
    for n in range(len(options)):
        if k == n:
            return options[n]
    return options[0]


def _universe(ia, ib, ic, ia2):
    p = docs.P()
    a = docs.lexicon_small(p, 'A', tag='', ili=ia, ili2=ia2, two=True)
    b = docs.lexicon_small(p, 'B', tag='', ili=ib, two=True)          # reuses A's ids
    c = docs.lexicon_small(p, 'C', tag='c', ili=ic, language='de')
    x = docs.extension_small(p, 'X', base=('A', '1'), tag='x', btag='')
    # the extension also gives the base entry e1 a new sense, attached to another base synset
    x['entries'][0]['senses'].append({'id': 'xs9', 'synset': 'ss2', 'meta': None})
    xx = docs.extension_small(p, 'XX', base=('X', '1'), tag='y', btag='x', second=False)
    rt.DB()
    rt.stub_normalizer()
    rt.quiet_add(docs.resource([a, b, c], '1.1'))
    rt.quiet_add(docs.resource([x], '1.1'))
    rt.quiet_add(docs.resource([xx], '1.1'))
    return {'A': a, 'B': b, 'C': c, 'X': x, 'XX': xx}


def _declared(lexs):
    """{(lexicon id, sense id): (entry lexicon, entry id, synset lexicon, synset id)} as declared
    by the documents (an external entity belongs to the nearest base that defines it)"""
    home = {}
    chain = {'A': ['A'], 'B': ['B'], 'C': ['C'], 'X': ['X', 'A'], 'XX': ['XX', 'X', 'A']}
    defined = {}
    for lid, lex in lexs.items():
        for e in lex['entries']:
            if not e.get('external'):
                defined[(lid, 'e', e['id'])] = True
        for ss in lex['synsets']:
            if not ss.get('external'):
                defined[(lid, 'ss', ss['id'])] = True

    def owner(lid, kind, xid):
        for cand in chain[lid]:
            if (cand, kind, xid) in defined:
                return cand
        return None
    for lid, lex in lexs.items():
        for e in lex['entries']:
            for s in e.get('senses', []):
                if s.get('external'):
                    continue
                home[(lid, s['id'])] = (owner(lid, 'e', e['id']), e['id'],
                                        owner(lid, 'ss', s['synset']), s['synset'])
    return home


def h_navigate(ka: int, kb: int, ksel: int) -> bool:
    """
    pre: 0 <= ka < 4 and 0 <= kb < 4 and ksel == rt.part(8)[0]
    post: _
    """
    lexs = _universe(_pick(ILIS, ka), _pick(ILIS, kb), 'i1', '')
    home = _declared(lexs)
    sel = _pick(SELECTIONS, ksel)
    w = wn.Wordnet(sel) if sel else wn.Wordnet()
    scope = [lx.id for lx in w.lexicons()]
    ok = True
    senses = w.senses()
    everything = wn.Wordnet()
    direct = {x._id: x for x in everything.synsets()}
    dsense = {x._id: x for x in everything.senses()}
    ok = ok and sorted((s.lexicon().id, s.id) for s in senses) == \
        sorted(k for k in home if k[0] in scope)
    for s in senses:
        el, eid, sl, ssid = home[(s.lexicon().id, s.id)]
        if sel is not None and (el not in scope or sl not in scope):
            continue     # restricted scope without the base: the entity is out of reach
        wd, ss = s.word(), s.synset()
        ok = ok and (wd.lexicon().id, wd.id) == (el, eid) and (ss.lexicon().id, ss.id) == (sl, ssid)
        ok = ok and s in wd.senses() and s in ss.senses()
        ok = ok and [x.id for x in wd.synsets()] == [x.synset().id for x in wd.senses()]
        ok = ok and [x.id for x in ss.words()] == [x.word().id for x in ss.senses()]
        # every object the query layer builds carries the columns of its row, whatever the
        # route (discharges the functional-dependency assumption of eq-hash): a synset
        # reached over a relation equals, and hashes like, the one listed directly
        for t in ss.get_related():
            d = direct.get(t._id)
            ok = ok and d is not None and t == d and t._lexid == d._lexid \
                and t._ili == d._ili and t.id == d.id and t.__hash__() == d.__hash__()
        for t in s.get_related():
            ok = ok and t._lexid == dsense[t._id]._lexid and t.id == dsense[t._id].id
    return rt.verdict(ok)


QN = (4, 4, 4) if rt.THOROUGH else (2, 3, 2)     # sizes of the ILI pools per tier
TARGETS = [None, ('lexicon', 'B:1'), ('lexicon', 'C:1'), ('lang', 'de'), ('lang', 'en'),
           ('lexicon', 'B:1 C:1'), ('lexicon', 'A:1')]


def h_translate(ka: int, ka2: int, kb: int, kc: int, ksel: int, ktgt: int) -> bool:
    """
    pre: 0 <= ka < 4 and 0 <= ka2 < QN[0] and 0 <= kb < QN[1] and 0 <= kc < QN[2]
    pre: ksel == rt.part(21)[0] // 7 and ktgt == rt.part(21)[0] % 7
    post: _
    """
    ilis = {'A': (_pick(ILIS, ka), _pick(['i1', '', 'i2', 'in'], ka2)),
            'B': (_pick(['i1', 'i2', '', 'in'], kb), ''),
            'C': (_pick(['i1', 'in', 'i2', ''], kc), '')}
    if ilis['A'][0] == ilis['A'][1] and ilis['A'][0] not in ('', 'in'):
        pass        # two synsets of one lexicon sharing an ILI: allowed
    lexs = _universe(ilis['A'][0], ilis['B'][0], ilis['C'][0], ilis['A'][1])
    sel = _pick([None, 'A:1', 'A:1 X:1'], ksel)
    w = wn.Wordnet(sel) if sel else wn.Wordnet()
    tgt = _pick(TARGETS, ktgt)
    kw = {} if tgt is None else {tgt[0]: tgt[1]}
    lang_of = {'A': 'en', 'B': 'en', 'C': 'de', 'X': 'en', 'XX': 'en'}
    if tgt is None:
        tlex = ['A', 'B', 'C', 'X', 'XX']
    elif tgt[0] == 'lexicon':
        tlex = [t.split(':')[0] for t in tgt[1].split()]
    else:
        tlex = [k for k, v in lang_of.items() if v == tgt[1]]
    # every synset of every lexicon with its ILI
    table = []
    for lid, lex in lexs.items():
        for ss in lex['synsets']:
            if not ss.get('external'):
                table.append((lid, ss['id'], ss['ili']))
    ok = True
    for ss in w.synsets():
        if ss.lexicon().id != 'A':
            continue
        ili = [i for l_, s_, i in table if l_ == 'A' and s_ == ss.id][0]
        want = sorted((l_, s_) for l_, s_, i in table
                      if l_ in tlex and i == ili and ili not in ('', 'in'))
        got = ss.translate(**kw)
        ok = ok and sorted((t.lexicon().id, t.id) for t in got) == want
        # symmetric: each translation translates back to (at least) this synset
        for t in got:
            back = t.translate(lexicon='A:1')
            ok = ok and ('A', ss.id) in [(b.lexicon().id, b.id) for b in back]
        # sense and word translation are its images
        for s in ss.senses():
            if s.lexicon().id != 'A':
                continue
            ts = s.translate(**kw)
            ok = ok and [x.id for x in ts] == [x.id for t in got for x in t.senses()]
    return rt.verdict(ok)


_F = ['wn._core.Sense.word', 'Sense.synset', 'Sense._home_lexicon_ids', 'Word.senses',
      'Word.synsets', 'Synset.senses', 'Synset.words', 'Synset.lemmas', 'Wordnet.senses/words',
      '_DatabaseEntity.__eq__/__hash__', 'Synset.__hash__', 'wn._queries.find_entries',
      'find_synsets', 'find_senses', 'get_entry_senses', 'get_synset_members',
      'get_lexicon_extension_bases']
OBLIGATIONS = [
    Ob('navigation-tables', 'h_table', quick=dict(timeout=250), thorough=dict(timeout=900),
       canary=[('word-by-id-anywhere', 0), ('eq-ignores-type', 0)], functions=_F,
       stubs=['vf.sqlmodel'],
       symbolic='ids of 2 entries and 2 synsets (strings of length 1, any code point: ids may '
                'coincide across lexicons), owner of the second entry/synset, which lexicons are '
                'selected, where the second sense is attached',
       bounds='2 lexicons, 2 entries, 2 synsets, 2 senses'),
    Ob('eq-hash', 'h_eqhash', quick=dict(timeout=200), thorough=dict(timeout=900),
       canary=[('synset-hash-by-wordnet', 0), ('relation-eq-ignores-lexicon', 0)],
       functions=['wn._core._DatabaseEntity.__eq__/__hash__', 'wn._core.Synset.__hash__',
                  'wn._core.Relation.__eq__/__hash__/subtype'],
       stubs=['builtin hash inside wn._core = vf.transforms._plain_hash (structural model: '
              'deterministic in the value, injective on the hashed tuples); no database'],
       symbolic='kind (Word/Sense/Synset), rowid (1..3), owning lexicon rowid, id string '
                '(1 char), ILI (0-1 char) of two entity objects; same or different Wordnet '
                'object; relation endpoints, lexicon and dc:type',
       bounds='2 entity objects + 2 relation objects; assumption: same table and rowid => '
              'same column values'),
    Ob('navigation-documents', 'h_navigate', parts=8, quick=dict(timeout=200),
       thorough=dict(timeout=900),
       canary=[('members-own-lexicon-only', 2), ('default-scope-no-ext-of-ext', 0)], functions=_F,
       stubs=['vf.sqlmodel', 'normalize_form = identity'],
       symbolic='ILI of the first synset of A and of B (i1, i2, none, proposed), Wordnet '
                'selection ' + str(SELECTIONS),
       bounds='A (2 entries, 3 senses, 2 synsets), its extension X, the extension XX of X, B '
              'reusing all of A\'s ids, C in another language'),
    Ob('translation', 'h_translate', parts=21, twin_parts=[0, 8, 20], quick=dict(timeout=200),
       thorough=dict(timeout=900), canary=[('translate-inside-source', 7)],
       functions=['wn._core.Synset.translate', 'Sense.translate', 'Word.translate',
                  'wn._core.synsets', 'find_synsets(ili=...)'],
       stubs=['vf.sqlmodel', 'normalize_form = identity'],
       symbolic='ILI (i1, i2, none, proposed) of both synsets of A and of the first synset of '
                'B and C; source selection (default, A, A+X); target ' + str(TARGETS),
       bounds='same universe'),
]
