"""C12 - relations borrowed through expand lexicons are mapped by ILI as documented.

Document-driven: lexicon L (whose synsets' ILIs are symbolic), expand lexicons E and E2
(whose relation targets and one ILI are symbolic), symbolic expand mode and dependency
declaration; the relations of every synset of L are compared with the rule of
docs/guides/interlingual.rst.
"""
from vf import rt
from vf.chx import Ob

CANARIES = {
    'keep-ili-less-targets': ('wn._core', "            if ili is None:\n                continue\n", ""),
    'no-placeholder': ('wn._core', "            else:\n                synset = Synset.empty(\n                    id=_INFERRED_SYNSET,\n                    ili=ili,\n                    _lexid=self._lexid,\n                    _wordnet=_wn,\n                )\n                yield synset_rel, synset",
                       "            else:\n                pass"),
    'expand-bare-id': ('wn._core', "                expand = ' '.join(\n                    format_lexicon_specifier(id, ver)\n                    for id, ver, _id in deps\n                    if _id is not None\n                )",
                       "                expand = ' '.join(\n                    id\n                    for id, ver, _id in deps\n                    if _id is not None\n                )"),
    'own-relations-last': ('wn._core', "        if self._id != NON_ROWID:\n            yield from self._iter_local_relations(args)\n        # then attempt to expand via ILI\n        if self._ili is not None and self._wordnet._expanded_ids:\n            yield from self._iter_expanded_relations(args)",
                           "        if self._ili is not None and self._wordnet._expanded_ids:\n            yield from self._iter_expanded_relations(args)\n        if self._id != NON_ROWID:\n            yield from self._iter_local_relations(args)"),
    'no-warning': ('wn._core', "                    if missing:\n                        warnings.warn(", "                    if missing and False:\n                        warnings.warn("),
}
rt.setup(canaries=CANARIES)

import warnings  # noqa: E402
import wn  # noqa: E402
from vf import docs  # noqa: E402

TECHNIQUE = 'CrossHair symbolic execution of the real expand logic (Wordnet.__init__, ' \
            'Synset._iter_relations/_iter_expanded_relations) over the SQL model with symbolic ILI ' \
            'assignment, relation targets, expand mode and dependency declaration'
ASSUMPTIONS = ['SQLite replaced by vf.sqlmodel; borrowed relations are compared as multisets (the '
               'order inside the borrowed part follows an ORDER-BY-less query)']

L_ILIS = ['i1', 'i2', '']
E4_ILIS = ['i1', '', 'in', 'i9']
MODES = ['default', '', 'E:1', 'E:1 E2:1', '*', 'unrestricted']


def _pick(options, k):
    for n in range(len(options)):
        if k == n:
            return options[n]
    return options[0]


def _ss(sid, ili, rels=()):
    d = {'id': sid, 'ili': ili, 'partOfSpeech': 'n', 'meta': None,
         'relations': [{'target': t, 'relType': y, 'meta': None} for y, t in rels]}
    if ili == 'in':
        d['ili_definition'] = {'text': 'proposed', 'meta': None}
    return d


def _lexicon(lid, synsets, requires=None, ver='1'):
    lx = {'id': lid, 'version': ver, 'label': lid, 'language': 'en', 'email': 'e', 'license': 'x',
          'meta': None, 'entries': [], 'synsets': synsets}
    if requires:
        lx['requires'] = requires
    return lx


def _world(il1, il2, ie4, t1, t2, dep, missing, e_newer, ext=False):
    lreq = []
    if dep:
        lreq.append({'id': 'E', 'version': '1'})
    if missing:
        lreq.append({'id': 'M', 'version': '9'})
    lex_l = _lexicon('L', [_ss('l1', il1, [('also', 'l2')]), _ss('l2', il2), _ss('l3', 'in')], lreq)
    # a word so that the synsets of L can also be reached by form
    lex_l['entries'] = [{'id': 'le', 'meta': None, 'lemma': {'writtenForm': 'wa', 'partOfSpeech': 'n'},
                         'senses': [{'id': 'ls1', 'synset': 'l1', 'meta': None},
                                    {'id': 'ls2', 'synset': 'l2', 'meta': None}]}]
    lex_e = _lexicon('E', [_ss('e1', 'i1', [('hypernym', t1)]), _ss('e2', 'i2', [('hypernym', t2)]),
                           _ss('e3', 'i3'), _ss('e4', ie4)])
    lex_e2 = _lexicon('E2', [_ss('f1', 'i1', [('similar', 'f2')]), _ss('f2', 'i2')])
    lex_en = _lexicon('E', [_ss('n1', 'i1', [('hypernym', 'n2')]), _ss('n2', 'i7')], ver='2')
    rt.DB()
    rt.stub_normalizer()
    # an extension of E that relates two synsets of E: the relation belongs to EX
    lex_ex = _lexicon('EX', [{'external': True, 'id': 'e2',
                              'relations': [{'target': 'e1', 'relType': 'also', 'meta': None}]},
                             {'external': True, 'id': 'e1'}])
    lex_ex['extends'] = {'id': 'E', 'version': '1'}
    order = [lex_e, lex_e2, lex_l] + ([lex_en] if e_newer else []) + ([lex_ex] if ext else [])
    for lx in order:
        rt.quiet_add(docs.resource([lx], '1.1'))
    return {'L:1': lex_l, 'E:1': lex_e, 'E2:1': lex_e2, **({'E:2': lex_en} if e_newer else {}),
            **({'EX:1': lex_ex} if ext else {})}


def _real(ili):
    return ili not in ('', 'in')


def _expected(world, expanded, x):
    """own relations first, then the borrowed ones (multiset)"""
    lsyn = world['L:1']['synsets']
    me = [s for s in lsyn if s['id'] == x][0]
    own = [(r['relType'], r['target'], x, r['target'], 'L:1') for r in me['relations']]
    borrowed = []
    if _real(me['ili']):
        for spec in expanded:
            ex = world[spec]
            if ex.get('extends'):
                continue        # what an extension adds is collected with the synsets of its base
            ilis = {s['id']: s['ili'] for s in ex['synsets']}
            for s in ex['synsets']:
                if s['ili'] != me['ili'] or (spec == 'L:1' and s['id'] == x):
                    continue
                rels = [(r, spec) for r in s['relations']]
                for xspec in expanded:
                    xl = world[xspec]
                    if xl.get('extends') and xl['extends']['id'] + ':' + xl['extends']['version'] == spec:
                        for es in xl['synsets']:
                            if es.get('external') and es['id'] == s['id']:
                                rels.extend((r, xspec) for r in es.get('relations', []))
                for r, owner in rels:
                    tili = ilis.get(r['target'], '')
                    if not _real(tili):
                        continue
                    local = [ls['id'] for ls in lsyn if ls['ili'] == tili]
                    if local:
                        for lid in local:
                            borrowed.append((r['relType'], lid, s['id'], r['target'], owner, tili))
                    else:
                        borrowed.append((r['relType'], '*INFERRED*', s['id'], r['target'], owner, tili))
    return own, borrowed


def h_expand(k1: int, k2: int, k4: int, kt1: int, kt2: int, kmode: int, dep: bool,
             missing: bool, newer: bool, ext: bool) -> bool:
    """
    pre: 0 <= k1 < 3 and 0 <= k2 < 3 and 0 <= k4 < 4 and 0 <= kt1 < 3 and 0 <= kt2 < 3
    pre: kmode == rt.part(18)[0] // 3 and k1 == rt.part(18)[0] % 3
    pre: kmode == 0 or (dep and not missing and not newer)
    pre: rt.THOROUGH or kmode != 0 or (k4 < 2 and kt2 == 0 and k2 < 2)
    pre: not ext or (kmode in (2, 4, 5) and (rt.THOROUGH or (kt1 == 0 and k4 == 0)))
    post: _
    """
    il1, il2, ie4 = _pick(L_ILIS, k1), _pick(L_ILIS, k2), _pick(E4_ILIS, k4)
    t1, t2 = _pick(['e2', 'e3', 'e4'], kt1), _pick(['e3', 'e4', 'e1'], kt2)
    world = _world(il1, il2, ie4, t1, t2, dep, missing, newer, ext)
    mode = MODES[rt.part(18)[0] // 3]
    with warnings.catch_warnings(record=True) as caught:
        warnings.simplefilter('always')
        if mode == 'default':
            w = wn.Wordnet('L:1')
            expanded = ['E:1'] if dep else []
        elif mode == 'unrestricted':
            w = wn.Wordnet()
            expanded = [lx.specifier() for lx in wn.lexicons()]
        else:
            w = wn.Wordnet('L:1', expand=mode)
            expanded = [lx.specifier() for lx in wn.lexicons()] if mode == '*' else mode.split()
    warned = [str(c.message) for c in caught if issubclass(c.category, wn.WnWarning)]
    ok = sorted(lx.specifier() for lx in w.expanded_lexicons()) == sorted(expanded)
    if mode == 'default':
        ok = ok and (len(warned) == 1 and 'M:9' in warned[0]) == missing and len(warned) <= 1
    else:
        ok = ok and warned == []
    for x in ('l1', 'l2', 'l3'):
        ss = [s for s in w.synsets() if s.id == x and s.lexicon().id == 'L'][0]
        own, borrowed = _expected(world, expanded, x)
        got = [(r.name, t.id, r.source_id, r.target_id, r.lexicon().specifier(), t._ili)
               for r, t in ss._iter_relations()]
        n = len(own)
        ok = ok and [g[:5] for g in got[:n]] == own
        if x != 'l3':
            # the same synset reached by a form that only matches after normalisation (second
            # pass of the lookup) expands in the same way
            alt = [s for s in w.synsets('WA') if s.id == x and s.lexicon().id == 'L'][0]
            ok = ok and [(r.name, t.id, r.source_id, r.target_id, r.lexicon().specifier(), t._ili)
                         for r, t in alt._iter_relations()] == got
        ok = ok and sorted(got[n:], key=repr) == sorted(borrowed, key=repr)
        # get_related: the same targets without duplicates; placeholders carry the ILI and are
        # reported as synsets of L
        rel = ss.get_related()
        ok = ok and len(rel) <= len(got)
        for t in rel:
            if t.id == '*INFERRED*':
                ok = ok and t.lexicon().id == 'L' and t._ili is not None
            else:
                ok = ok and t.lexicon().id == 'L'
    return rt.verdict(ok)


_F = ['wn._core.Wordnet.__init__ (default expand from dependencies, WnWarning)',
      'Wordnet.expanded_lexicons', 'Synset._iter_relations', '_iter_local_relations',
      '_iter_expanded_relations', 'Synset.empty', 'Synset.get_related',
      'wn._queries.find_synsets(ili=...)', 'get_synsets_for_ilis', 'get_synset_relations',
      'get_lexicon_dependencies', 'find_lexicons']
OBLIGATIONS = [
    Ob('expand-rule', 'h_expand', parts=18, twin_parts=[0, 4, 8, 12, 16],
       quick=dict(timeout=250), thorough=dict(timeout=1200),
       canary=[('keep-ili-less-targets', 6), ('no-placeholder', 6), ('expand-bare-id', 0),
               ('own-relations-last', 6), ('no-warning', 0)],
       functions=_F, stubs=['vf.sqlmodel', 'normalize_form = identity'],
       symbolic='ILI of two synsets of L (i1, i2, none), ILI of one synset of E (i1 again, none, '
                'proposed, i9), the targets of two hypernym relations in E, whether L declares the '
                'dependency on E, whether a declared dependency is missing, whether a newer E:2 is '
                'installed, whether an extension EX of E that relates two synsets of E is '
                'installed (its relation is borrowed, with EX as its lexicon, exactly when EX is '
                'among the expand lexicons); expand mode ' + str(MODES) + ' (one partition each)',
       bounds='L with 3 synsets (one own relation, one proposed ILI), E with 4 synsets, E2 with 2'),
]
