"""C16 - results are a function of database content and arguments only.

What the solver decides here: independence from set iteration order.  The wn modules are
re-compiled with every set display / comprehension / set() call turned into an NDSet, whose
iteration order is a permutation chosen by symbolic integers (a str / Synset set has a
PYTHONHASHSEED dependent order in CPython).  Each harness runs the real function once in
identity order and once in a solver-chosen order and asserts identical results, including
the order of lists and mappings.  Also: read-only calls issue no DML and are repeatable;
results do not depend on which other Wordnet objects were queried before (cache model).
"""
from vf import rt
from vf.chx import Ob

ND = ('wn.taxonomy', 'wn.similarity', 'wn._export', 'wn.validate', 'wn.morphy', 'wn._core')
CANARIES = {
    'unsorted-common': ('wn.taxonomy', "    for ss in sorted(common):", "    for ss in common:"),
    'unsorted-w404': ('wn.validate', "            for src, typ, tgt in sorted(regular)",
                      "            for src, typ, tgt in regular"),
    'set-of-senses': ('wn._export', "    sense_ids = [s['id'] for s in entry.get('senses', [])]",
                      "    sense_ids = {s['id'] for s in entry.get('senses', [])}"),
    'deps-as-set': ('wn._core', "                deps = [(id, ver, _id)\n                        for lex in self._lexicons\n"
                                "                        for id, ver, _, _id in get_lexicon_dependencies(lex._id)]",
                    "                deps = {(id, ver, _id)\n                        for lex in self._lexicons\n"
                    "                        for id, ver, _, _id in get_lexicon_dependencies(lex._id)}"),
    'unique-via-set': ('wn._util', "    targets = {item: True for item in items}\n    return list(targets)",
                       "    return list(set(items))"),
    'write-on-read': ('wn._queries', "    query = 'SELECT modified FROM lexicons WHERE rowid = ?'\n",
                      "    connect().execute('UPDATE lexicons SET modified = 0 WHERE rowid = ?', (rowid,))\n"
                      "    query = 'SELECT modified FROM lexicons WHERE rowid = ?'\n"),
}
from vf import transforms as _T  # noqa: E402
rt.setup(dehash=[m for m in _T.DEFAULT_DEHASH if m not in ND and m != 'wn._util'],
         ndset=ND + ('wn._util',), canaries=CANARIES)

import ast  # noqa: E402
import os  # noqa: E402
import wn  # noqa: E402
from wn import taxonomy as T  # noqa: E402
from wn import similarity as S  # noqa: E402
from wn import validate as V  # noqa: E402
from wn import _export as X  # noqa: E402
from wn import morphy as MO  # noqa: E402
from vf import graph as G  # noqa: E402
from vf import docs  # noqa: E402
from vf import lincont  # noqa: E402

rt.native_float_in(S)
NC = 3 if rt.THOROUGH else 1     # range of the later order choices (quick: only the first three vary)

TECHNIQUE = 'CrossHair symbolic execution of real wn functions re-compiled with solver-chosen set ' \
            'iteration order (2-safety: identity order vs arbitrary order); no-DML and repeatability ' \
            'on the SQL model; AST inventory of set-consuming sites'
ASSUMPTIONS = [
    'an NDSet may iterate in any order; CPython sets of small ints iterate in a seed-independent '
    'order, so sets of rowids are over-approximated (a counterexample through them is triaged '
    'by the PYTHONHASHSEED replay)',
    "SQLite's own row order for ORDER-BY-less queries is deterministic for a given file and "
    'outside this check; thread scheduling is outside',
    'replay of a counterexample runs the call in sub-processes over PYTHONHASHSEED 0..15 on a '
    'real database',
]


def _choices(cs):
    lincont.ND_CHOICES[:] = list(cs)


def _plain(x):
    return lincont.to_plain(x)


# -- taxonomy / similarity on the two-LCH graph --------------------------------------------

def _lch_graph(extra: bool):
    # a(0)->x(2), a->m(4)->y(3), b(1)->x, b->y, x->r(5), y->r ; two lowest common hypernyms
    # x and y at different distances
    adj = [[False] * 6 for _ in range(6)]
    for s, t in ((0, 2), (0, 4), (4, 3), (1, 2), (1, 3), (2, 5), (3, 5)):
        adj[s][t] = True
    if extra:
        adj[4][2] = True
    return adj


def _tax_transcript(g):
    A, B = g.ss(0), g.ss(1)
    out = []
    out.append([s.id for s in T.lowest_common_hypernyms(A, B)])
    out.append([s.id for s in T.lowest_common_hypernyms(B, A)])
    out.append([s.id for s in T.common_hypernyms(A, B)])
    out.append([s.id for s in T.shortest_path(A, B)])
    out.append(S.wup(A, B))
    out.append(S.wup(B, A))
    out.append(S.path(A, B))
    out.append([[s.id for s in p] for p in T.hypernym_paths(A)])
    return out


def h_taxonomy(c0: int, c1: int, c2: int, c3: int, c4: int, c5: int, extra: bool) -> bool:
    """
    pre: 0 <= c0 < 3 and 0 <= c1 < 3 and 0 <= c2 < 3 and 0 <= c3 < NC and 0 <= c4 < NC and 0 <= c5 < NC
    pre: c0 == rt.part(3)[0]
    post: _
    """
    if not rt.SYM:
        return rt.seed_independent(lambda: _tax_transcript(G.Graph(6, _lch_graph(extra))))
    g = G.Graph(6, _lch_graph(extra))
    _choices([])
    base = _tax_transcript(g)
    _choices([c0, c1, c2, c3, c4, c5])
    other = _tax_transcript(g)
    _choices([])
    return rt.verdict(base == other)


# -- validator ------------------------------------------------------------------------------

def _lex_for_validate():
    def rel(t, y):
        return {'target': t, 'relType': y, 'meta': None}
    return {'id': 'L', 'version': '1', 'label': 'l', 'language': 'en', 'email': 'e',
            'license': 'x', 'meta': None,
            'entries': [{'id': 'e', 'meta': None,
                         'lemma': {'writtenForm': 'w', 'partOfSpeech': 'n'},
                         'senses': [{'id': 's1', 'synset': 'a', 'meta': None,
                                     'relations': [rel('s2', 'antonym'), rel('s2', 'similar')]},
                                    {'id': 's2', 'synset': 'b', 'meta': None}]}],
            'synsets': [{'id': 'a', 'ili': '', 'partOfSpeech': 'n', 'meta': None,
                         'relations': [rel('b', 'hypernym'), rel('b', 'similar'),
                                       rel('c', 'hypernym')]},
                        {'id': 'b', 'ili': '', 'partOfSpeech': 'n', 'meta': None,
                         'relations': [rel('c', 'hypernym')]},
                        {'id': 'c', 'ili': '', 'partOfSpeech': 'n', 'meta': None}]}


def h_validate(c0: int, c1: int, c2: int, c3: int, c4: int, c5: int) -> bool:
    """
    pre: 0 <= c0 < 6 and 0 <= c1 < 5 and 0 <= c2 < 4 and 0 <= c3 < NC and 0 <= c4 < NC and 0 <= c5 < NC
    pre: c0 == rt.part(6)[0]
    post: _
    """
    lex = _lex_for_validate()
    if not rt.SYM:
        return rt.seed_independent(lambda: _plain(V.validate(lex, progress_handler=None)))
    _choices([])
    base = _plain(V.validate(lex, progress_handler=None))
    _choices([c0, c1, c2, c3, c4, c5])
    other = _plain(V.validate(lex, progress_handler=None))
    _choices([])
    return rt.verdict(base == other)


# -- export of 1.0-style frames ---------------------------------------------------------------

def h_export_frames(c0: int, c1: int, c2: int, c3: int) -> bool:
    """
    pre: 0 <= c0 < 3 and 0 <= c1 < 3 and 0 <= c2 < 3 and 0 <= c3 < 3
    post: _
    """
    entry = {'id': 'e', 'senses': [{'id': 's1'}, {'id': 's2'}, {'id': 's3'}]}
    sbmap = {'s1': [('f1', 'frame one'), ('f2', 'frame two')], 's2': [('f2', 'frame two')],
             's3': [('f3', 'frame three'), ('f1', 'frame one')]}
    if not rt.SYM:
        return rt.seed_independent(
            lambda: _plain(X._export_syntactic_behaviours_1_0(entry, sbmap)))
    _choices([])
    base = _plain(X._export_syntactic_behaviours_1_0(entry, sbmap))
    _choices([c0, c1, c2, c3])
    other = _plain(X._export_syntactic_behaviours_1_0(entry, sbmap))
    _choices([])
    return rt.verdict(base == other)


# -- a Wordnet with a lemmatizer whose proposals are sets; default expand from dependencies ----

def _dep_db():
    p = docs.P()
    rt.DB()
    rt.stub_normalizer()
    base1 = docs.lexicon_small(p, 'E1', tag='e1', ili='i1')
    base2 = docs.lexicon_small(p, 'E2', tag='e2', ili='i2')
    base1['entries'][0]['lemma']['writtenForm'] = 'axis'
    base1['entries'][0]['forms'] = [{'writtenForm': 'axes'}]
    base2['entries'][0]['lemma']['writtenForm'] = 'axe'
    d1 = docs.lexicon_small(p, 'D1', tag='d1', ili='i1',
                            requires=[{'id': 'E1', 'version': '1'}, {'id': 'E2', 'version': '1'}])
    d2 = docs.lexicon_small(p, 'D2', tag='d2', ili='i2', requires=[{'id': 'E2', 'version': '1'}])
    d1['entries'][0]['lemma']['writtenForm'] = 'ax'
    # the same query form leads to lemmas of two parts of speech
    d2['entries'][0]['lemma']['writtenForm'] = 'axe'
    d2['entries'][0]['lemma']['partOfSpeech'] = 'v'
    rt.quiet_add(docs.resource([base1, base2, d1, d2], '1.1'))


def _wordnet_transcript():
    import warnings
    with warnings.catch_warnings():
        warnings.simplefilter('ignore')
        w = wn.Wordnet('D1 D2')
    out = [[lx.id for lx in w.lexicons()], [lx.id for lx in w.expanded_lexicons()]]
    m = MO.Morphy()
    w2 = wn.Wordnet('E1 E2 D1 D2', expand='', lemmatizer=m)
    out.append([x.id for x in w2.words('axes')])
    out.append([x.id for x in w2.senses('axes')])
    out.append([x.id for x in w2.synsets('axes')])
    out.append(sorted(x for x in m('axes', 'n')['n']))
    out.append([[p, sorted(fs)] for p, fs in m('axes').items()])
    ss = w.synset('d1ss1')
    out.append([[r.name, t.id, t._ili] for r, t in ss.relation_map().items()])
    out.append([t.id for t in ss.get_related()])
    return out


def h_wordnet(c0: int, c1: int, c2: int, c3: int, c4: int, c5: int) -> bool:
    """
    pre: 0 <= c0 < 3 and 0 <= c1 < 3 and 0 <= c2 < 3 and 0 <= c3 < NC and 0 <= c4 < NC and 0 <= c5 < NC
    pre: c0 == rt.part(3)[0]
    post: _
    """
    _dep_db()
    if not rt.SYM:
        return rt.seed_independent(_wordnet_transcript)
    _choices([])
    base = _wordnet_transcript()
    _choices([c0, c1, c2, c3, c4, c5])
    other = _wordnet_transcript()
    _choices([])
    return rt.verdict(base == other)


def h_unique_list(c0: int, c1: int, c2: int) -> bool:
    """
    pre: 0 <= c0 < 3 and 0 <= c1 < 3 and 0 <= c2 < 3
    post: _
    """
    from wn import _util
    items = ['b', 'a', 'c', 'a', 'b']
    if not rt.SYM:
        return rt.seed_independent(lambda: _util.unique_list(items))
    _choices([])
    base = _util.unique_list(items)
    _choices([c0, c1, c2])
    other = _util.unique_list(items)
    _choices([])
    return rt.verdict(base == other and base == ['b', 'a', 'c'])


# -- read-only calls: no DML, repeatable, independent of earlier read-only calls ---------------

def h_readonly(first_expanded: bool, twice: bool) -> bool:
    """
    post: _
    """
    db = rt.DB()
    rt.stub_normalizer()
    p = docs.P()
    rich = docs.lexicon_rich(p, lid='L', style='1.1')
    rich['requires'] = [{'id': 'E', 'version': '1'}]
    exp = docs.lexicon_small(p, 'E', tag='e', ili='i1')
    exp['synsets'].append({'id': 'ess3', 'ili': 'i3', 'partOfSpeech': 'n', 'meta': None})
    exp['synsets'][0]['relations'].append({'target': 'ess3', 'relType': 'hypernym', 'meta': None})
    rt.quiet_add(docs.resource([exp, rich], '1.1'))
    before = db.dump()
    nlog = len(db.conn.log) if rt.SYM else 0

    def battery(expand):
        w = wn.Wordnet('L:1', expand=expand)
        ss = w.synset('ss1')
        out = [[[s.id for s in path] for path in ss.hypernym_paths()],
               [[r.name, t.id] for r, t in ss.relation_map().items()],
               ss.max_depth(), [x.id for x in w.words()], w.lexicons()[0].modified()]
        out.append(docs.observe_lexicon(wn, 'L:1'))
        return out
    order = ['E:1', ''] if first_expanded else ['', 'E:1']
    r0 = battery(order[0])
    r1 = battery(order[1])
    ok = True
    if twice:
        ok = battery(order[0]) == r0 and battery(order[1]) == r1
    # each configuration gives what it gives when asked first (fresh process semantics are
    # checked by asking in both orders: the partition with the other order must agree)
    want_plain = [['ss2']]
    plain = r1 if first_expanded else r0
    expanded = r0 if first_expanded else r1
    ok = ok and plain[0] == want_plain and len(expanded[1]) >= len(plain[1])
    ok = ok and db.dump() == before and not db.in_transaction()
    if rt.SYM:
        kinds = [k for k, _t in db.conn.log[nlog:]]
        ok = ok and 'insert' not in kinds and 'update' not in kinds and 'delete' not in kinds
    return rt.verdict(ok)


# -- inventory of set-consuming sites (reported in the evidence; a new site is visible) --------

KNOWN_SITES = {
    # module: {function: covered-by}
    'taxonomy.py': {'_shortest_hyp_paths': 'taxonomy', 'common_hypernyms': 'taxonomy (sorted)',
                    'taxonomy_depth': 'membership only'},
    'validate.py': {'_missing_reverse_relation': 'validate', '_empty_synset': 'membership only',
                    '_select_checks': 'membership only'},
    '_export.py': {'_export_syntactic_behaviours_1_0': 'export-frames', '_precheck': 'membership only'},
    'morphy.py': {'__init__': 'wordnet', '__call__': 'wordnet', '_morphstr': 'wordnet'},
    '_core.py': {'_get_lexicon_ids': 'rowid ints (seed independent)', 'closure': 'membership only',
                 'relation_paths': 'membership only', '_find_helper': 'membership only',
                 '_iter_local_relations': 'single element', '_iter_expanded_relations': 'rowid ints'},
    '_add.py': {'_update_lookup_tables': 'sorted()', '_insert_sense_relations': 'membership only',
                '_add_ili': 'sorted()'},
    'ic.py': {'compute': 'membership only'},
    '_util.py': {},
    'lmf.py': {'_make_parser': 'membership only'},
}


def inventory():
    """functions of wn/*.py that build a set (display, comprehension, set()/frozenset() call);
    returns (rows, unknown) where unknown lists functions not in KNOWN_SITES."""
    root = os.path.dirname(wn.__file__)
    rows, unknown = [], []
    for fn in sorted(os.listdir(root)):
        if not fn.endswith('.py'):
            continue
        tree = ast.parse(open(os.path.join(root, fn)).read())
        for node in ast.walk(tree):
            if isinstance(node, (ast.FunctionDef, ast.AsyncFunctionDef)):
                n = 0
                for sub in ast.walk(node):
                    if isinstance(sub, (ast.Set, ast.SetComp)):
                        n += 1
                    elif isinstance(sub, ast.Call) and isinstance(sub.func, ast.Name) \
                            and sub.func.id in ('set', 'frozenset'):
                        n += 1
                if n:
                    cov = KNOWN_SITES.get(fn, {}).get(node.name)
                    rows.append({'file': fn, 'function': node.name, 'sets': n,
                                 'covered_by': cov or 'UNKNOWN'})
                    if cov is None and fn not in ('web.py', '__main__.py', '_config.py',
                                                  'project.py', '_download.py', 'util.py'):
                        unknown.append(f'{fn}:{node.name}')
    return rows, unknown


def h_inventory(k: int) -> bool:
    """
    pre: 0 <= k < 2
    post: _
    """
    rows, unknown = inventory()
    rt.log('set-building functions: %d, not in the known list: %s' % (len(rows), unknown))
    return rt.verdict(len(rows) > 5)


_STUB = ['NDSet: iteration order chosen by symbolic integers']
OBLIGATIONS = [
    Ob('taxonomy-order', 'h_taxonomy', parts=3, quick=dict(timeout=200), thorough=dict(timeout=900),
       canary=[('unsorted-common', 0)],
       functions=['wn.taxonomy._shortest_hyp_paths', 'lowest_common_hypernyms', 'common_hypernyms',
                  'shortest_path', 'hypernym_paths', 'wn.similarity.wup', 'path'],
       stubs=_STUB + ['relation source: adjacency matrix'],
       symbolic='order choices: 3 (quick) / 6 (thorough) symbolic integers steering every set iteration, one optional extra edge',
       bounds='the 6-node graph with two lowest common hypernyms at different distances'),
    Ob('validate-order', 'h_validate', parts=6, quick=dict(timeout=200), thorough=dict(timeout=900),
       canary=[('unsorted-w404', 0)], functions=['wn.validate.validate + all 18 checks'],
       stubs=_STUB, symbolic='6 order choices (each 0..5)',
       bounds='a lexicon with 6 relations, several of them without reverse'),
    Ob('export-frames-order', 'h_export_frames', quick=dict(timeout=120),
       canary=[('set-of-senses', 0)], functions=['wn._export._export_syntactic_behaviours_1_0'],
       stubs=_STUB, symbolic='4 order choices', bounds='entry with 3 senses and 3 frames'),
    Ob('wordnet-order', 'h_wordnet', parts=3, quick=dict(timeout=250), thorough=dict(timeout=900),
       canary=[('deps-as-set', 0)],
       functions=['wn._core.Wordnet.__init__', '_find_helper', 'wn.morphy.Morphy', 'unique_list',
                  'Synset.relation_map / get_related (expanded)'],
       stubs=_STUB + ['vf.sqlmodel', 'normalize_form = identity'],
       symbolic='6 order choices',
       bounds='4 lexicons (two dependents requiring two providers); Morphy proposing several forms'),
    Ob('unique-list', 'h_unique_list', quick=dict(timeout=60), canary=[('unique-via-set', 0)],
       functions=['wn._util.unique_list'], stubs=_STUB, symbolic='3 order choices',
       bounds='a 5-element list with duplicates (order-preserving de-duplication used by '
              'get_related and friends)'),
    Ob('read-only', 'h_readonly', quick=dict(timeout=250), thorough=dict(timeout=600),
       canary=[('write-on-read', 0)],
       functions=['every query/navigation method walked by docs.observe_lexicon', 'hypernym_paths',
                  'Lexicon.modified'],
       stubs=['vf.sqlmodel (statement log)', 'functools caches modelled'],
       symbolic='order of two differently configured Wordnets, repetition',
       bounds='rich lexicon + expand lexicon; no INSERT/UPDATE/DELETE in the statement log, tables '
              'unchanged, repeated calls equal'),
    Ob('inventory', 'h_inventory', quick=dict(timeout=60), canary=None,
       functions=['AST of wn/*.py'], symbolic='-',
       bounds='lists every function that builds a set and how it is covered'),
]
