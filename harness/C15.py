"""C15 - information-content weights are conserved, counted once and monotone.

Symbolic: adjacency bits of the hypernym graph (incl. cycles), which synsets a corpus word
belongs to, the corpus counts (any non-negative integers), the smoothing value (any
non-negative real), distribute_weight, satellite vs. plain adjectives.
"""
from vf import rt
from vf.chx import Ob

CANARIES = {
    'per-path-seen': ('wn.ic', "                if ss in seen:\n                    continue\n                seen.add(ss)\n\n"
                               "                freq[pos][ss.id] += weight\n",
                      "                freq[pos][ss.id] += weight\n"
                      "                if ss in seen:\n                    continue\n                seen.add(ss)\n\n"),
    'total-once-per-word': ('wn.ic', "                continue\n\n            freq[pos][None] += weight\n",
                            "                continue\n\n            if synset is synsets[0]:\n"
                            "                freq[pos][None] += weight\n"),
    'sat-not-adj': ('wn.ic', "            if pos == ADJ_SAT:\n                pos = ADJ\n            if pos not in IC_PARTS_OF_SPEECH:",
                    "            if pos not in IC_PARTS_OF_SPEECH:"),
    'root-flag': ('wn.ic', "            if is_root:\n                freq[pos][None] += weight",
                  "            if is_root and pos == 'n':\n                freq[pos][None] += weight"),
}
rt.setup(canaries=CANARIES)

import wn  # noqa: E402,F401
from wn import ic as IC  # noqa: E402
from vf import graph as G  # noqa: E402

TECHNIQUE = 'CrossHair symbolic execution of the real wn.ic.compute / synset_probability / load ' \
            'on graphs with symbolic adjacency and symbolic corpus counts, against the closed-form ' \
            'definition from docs/api/wn.ic.rst'
ASSUMPTIONS = [
    'floats are modelled as reals (CrossHair); a counterexample must reproduce with IEEE floats '
    'within a relative tolerance of 1e-9',
    'Counter(corpus) is modelled by a multiset with symbolic multiplicities',
    'math.log is not executed: IC = -log p is monotone decreasing in p and >= 0 iff p <= 1, so the '
    'IC claims follow from the probability claims checked here (log strictly increasing, log 1 = 0)',
    'relation query stubbed by the adjacency matrix; Wordnet.synsets(form) by a symbolic word table',
]


def _and(a, b):
    """conjunction that does not fork the path on symbolic operands"""
    if a is True:
        return b
    if b is True:
        return a
    if a is False or b is False:
        return False
    return a & b


def _close(a, b):
    if rt.SYM:
        return a == b
    return abs(a - b) <= 1e-9 * max(1.0, abs(a), abs(b))


def _corpus(pairs):
    """pairs: [(token, count)] -> what compute() receives"""
    if rt.SYM:
        from vf.lincont import LinDict
        return LinDict([(t, c) for t, c in pairs])
    out = []
    for t, c in pairs:
        out.extend([t] * c)
    return out


def _expected(g, words, counts, dist, sm, table_pos):
    """closed form: per table pos: total and per-synset weights"""
    nodes = [i for i in range(g.n) if (('a' if g.pos[i] == 's' else g.pos[i]) == table_pos)]
    total = sm
    per = {i: sm for i in nodes}
    for form, wnodes in words:
        c = None
        for t, cnt in counts:
            if t == form:
                c = cnt
        if c is None or c == 0 or not wnodes:
            continue
        weight = (c * 1.0) / len(wnodes) if dist else c * 1.0
        for ws in wnodes:
            p = 'a' if g.pos[ws] == 's' else g.pos[ws]
            if p != table_pos:
                continue
            total = total + weight
            for anc in G.ancestors(g, ws):
                per[anc] = per[anc] + weight
    return total, per


def _check(g, freq, words, counts, dist, sm, table_pos):
    total, per = _expected(g, words, counts, dist, sm, table_pos)
    tab = freq[table_pos]
    ok = _close(tab[None], total)
    keys = [k for k in tab]
    if len(keys) != len(per) + 1:
        return False
    for i, v in per.items():
        ok = _and(ok, _close(tab[f'n{i}'], v))
        # monotone up the taxonomy, probability in (0, 1]
        for j in g.hypers(i):
            if j in per:
                ok = _and(ok, tab[f'n{j}'] + 1e-9 * (0 if rt.SYM else 1) * abs(tab[f'n{i}'])
                          >= tab[f'n{i}'])
        # probability in (0, 1]  <=>  0 < weight <= total (stated linearly: the quotient of
        # two symbolic reals would make the solver queries non-linear); the real function is
        # still executed, and evaluated numerically in replay
        if rt.SYM:
            if sm > 0:
                IC.synset_probability(g.ss(i), freq)
                ok = _and(ok, _and(tab[f'n{i}'] > 0, tab[f'n{i}'] <= tab[None]))
        elif sm > 0:
            pr = IC.synset_probability(g.ss(i), freq)
            ok = ok and 0 < pr <= 1 + 1e-9
    return ok


def _or(a, b):
    if a is True or b is True:
        return True
    if a is False:
        return b
    if b is False:
        return a
    return a | b


def h_compute(b0: bool, b1: bool, b2: bool, b3: bool, b4: bool, b5: bool, b6: bool, b7: bool,
              b8: bool, zero1: bool, smz: bool) -> bool:
    """
    pre: rt.THOROUGH or not (b0 or b4 or b8)
    post: _
    """
    # compute() is linear in the counts; the counts 3 and 5 (or 0) and the smoothing 0.25 (or
    # 0) are chosen so that every wrong multiplicity (0..4 per word and synset) shows in the
    # weight.  Symbolic counts are covered on a fixed graph by `arithmetic`.
    c1, c2 = (0 if zero1 else 3), 5
    sm = 0.0 if smz else 0.25
    # all digraphs on 3 nodes (self-loops, cycles, diamonds in any listing order); word 'u'
    # belongs to node w (partition) and, if `two`, also to the next node; word 'v' to node 0;
    # 'zz' is not in the wordnet
    part = rt.part(12)[0]
    w, two, dist = part % 3, (part // 3) % 2 == 1, part // 6 == 1
    adj = [[b0, b1, b2], [b3, b4, b5], [b6, b7, b8]]
    words = [('u', [w] + ([(w + 1) % 3] if two else [])), ('v', [0])]
    g = G.Graph(3, adj, words=words, budget=400)
    counts = [('u', c1), ('v', c2), ('zz', 3)]
    try:
        freq = IC.compute(_corpus(counts), g.wordnet, distribute_weight=dist, smoothing=sm)
        ok = _check(g, freq, words, counts, dist, sm, 'n')
        for p in ('v', 'a', 'r'):
            ok = _and(ok, _close(freq[p][None], sm))
            if len([k for k in freq[p]]) != 1:
                ok = False
    except G.Budget:
        return False
    return rt.verdict(ok)


def h_recompute(zero1: bool, smz: bool, dist: bool) -> bool:
    """
    post: _
    """
    c1, c2 = (0 if zero1 else 3), 5
    sm = 0.0 if smz else 0.25
    # a second call on the same Wordnet object starts from scratch and leaves the first
    # result alone (diamond 0->1, 0->2, 1->2 listed direct-first)
    adj = [[False, True, True], [False, False, False], [False, True, False]]
    words = [('u', [0]), ('v', [2])]
    g = G.Graph(3, adj, words=words, budget=400)
    counts = [('u', c1), ('v', c2)]
    counts2 = [('u', c2), ('v', c1)]
    freq = IC.compute(_corpus(counts), g.wordnet, distribute_weight=dist, smoothing=sm)
    freq2 = IC.compute(_corpus(counts2), g.wordnet, distribute_weight=dist, smoothing=sm)
    ok = _and(_check(g, freq2, words, counts2, dist, sm, 'n'),
              _check(g, freq, words, counts, dist, sm, 'n'))
    return rt.verdict(ok)


def h_adjectives(b0: bool, b1: bool, b2: bool, s0: bool, s1: bool, s2: bool,
                 smz: bool, rev: bool) -> bool:
    """
    post: _
    """
    c1 = 3
    sm = 0.0 if smz else 0.25
    # satellite adjectives count as adjectives: a 3-node DAG whose nodes are 'a' or 's'
    w = rt.part(3)[0]
    adj = [[False] * 3 for _ in range(3)]
    k = 0
    for i in range(3):
        for j in range(i + 1, 3):
            if rev:
                adj[j][i] = [b0, b1, b2][k]
            else:
                adj[i][j] = [b0, b1, b2][k]
            k += 1
    pos = ['s' if s else 'a' for s in (s0, s1, s2)]
    words = [('u', [w])]
    g = G.Graph(3, adj, pos=pos, words=words, budget=300)
    counts = [('u', c1)]
    try:
        freq = IC.compute(_corpus(counts), g.wordnet, distribute_weight=True, smoothing=sm)
        ok = _check(g, freq, words, counts, True, sm, 'a')
        if 's' in [k for k in freq]:
            ok = False
    except G.Budget:
        return False
    return rt.verdict(ok)


class _FakeFile:
    def __init__(self, lines):
        self._lines = lines

    def __enter__(self):
        return iter(self._lines)

    def __exit__(self, *a):
        return False


class _FakePath:
    LINES = []

    def __init__(self, *a):
        pass

    def expanduser(self):
        return self

    def resolve(self, strict=False):
        return self

    def open(self, *a, **k):
        return _FakeFile(list(_FakePath.LINES))


def h_arithmetic(c1: int, c2: int, dist: bool) -> bool:
    """
    pre: 0 <= c1 <= 1000 and 0 <= c2 <= 1000
    post: _
    """
    # symbolic counts on a fixed diamond (word u: synsets 0 and 1; word v: synset 2)
    adj = [[False, True, True], [False, False, False], [False, True, False]]
    words = [('u', [0, 1]), ('v', [2])]
    g = G.Graph(3, adj, words=words, budget=400)
    counts = [('u', c1), ('v', c2)]
    freq = IC.compute(_corpus(counts), g.wordnet, distribute_weight=dist, smoothing=1.0)
    return rt.verdict(_check(g, freq, words, counts, dist, 1.0, 'n'))


WEIGHT_TEXTS = ['5', '7.25', '1e-05', '.5', '2.5e+3', '0.0']     # what repr(float) / '%g' can write


def h_load(o1: int, o2: int, r1: bool, r2: bool, p2: bool, kw1: int, kw2: int) -> bool:
    """
    pre: 0 <= o1 <= 2 and 0 <= o2 <= 2 and 0 <= kw1 < 6 and 0 <= kw2 < 6
    pre: rt.THOROUGH or kw2 == (kw1 + 1) % 6
    post: _
    """
    w1, w2 = WEIGHT_TEXTS[0], WEIGHT_TEXTS[0]
    for n in range(6):
        if kw1 == n:
            w1 = WEIGHT_TEXTS[n]
        if kw2 == n:
            w2 = WEIGHT_TEXTS[n]
    # a WordNet::Similarity weights file with two lines whose offset, weight and ROOT flag
    # are symbolic; offsets index the nodes
    g = G.Graph(3, [[False, True, False], [False, False, True], [False, False, False]],
                pos=['n', 'n', 'v'])
    offs = ['0', '1', '2']
    l1 = offs[[i for i in range(3) if i == o1][0]] + 'n ' + w1 + (' ROOT' if r1 else '')
    l2 = offs[[i for i in range(3) if i == o2][0]] + ('v' if p2 else 'n') + ' ' + w2 + \
        (' ROOT' if r2 else '')
    _FakePath.LINES = ['wnver::x\n', l1 + '\n', l2 + '\n']
    IC.Path = _FakePath
    freq = IC.load('weights.dat', g.wordnet, get_synset_id=lambda offset, pos: f'n{offset}')
    want = {'n': {'n0': 0.0, 'n1': 0.0, None: 0.0}, 'v': {'n2': 0.0, None: 0.0},
            'a': {None: 0.0}, 'r': {None: 0.0}}
    for off, pos, wt, root in ((o1, 'n', w1, r1), (o2, 'v' if p2 else 'n', w2, r2)):
        for i in range(3):
            if off == i:
                want[pos][f'n{i}'] = float(wt)
        if root:
            want[pos][None] = want[pos][None] + float(wt)
    ok = True
    for pos, tab in want.items():
        got = freq[pos]
        ok = ok and len([k for k in got]) == len(tab)
        for k, v in tab.items():
            ok = ok and k in got and _close(got[k], v)
    return rt.verdict(ok)


_F = ['wn.ic.compute', 'wn.ic._initialize', 'wn.ic.synset_probability', 'Synset.hypernyms',
      'Synset.get_related', 'Synset._iter_local_relations']
_STUB = ['relation source: adjacency matrix', 'Wordnet.synsets(form / pos): symbolic word table',
         'Counter: multiset with symbolic multiplicities']
OBLIGATIONS = [
    Ob('compute', 'h_compute', parts=12, quick=dict(timeout=200), thorough=dict(timeout=1500),
       canary=[('per-path-seen', 0), ('total-once-per-word', 3)], functions=_F, stubs=_STUB,
       symbolic='adjacency bits; count of the first word in {0, 3}, smoothing in {0, 0.25}',
       bounds='all labelled digraphs on 3 nodes (cycles, convergent paths in any listing order; '
              'self-loops in the thorough tier); two known words + one unknown word; partitions: '
              'synset of the word x one/two synsets x distribute_weight; call budget 400'),
    Ob('arithmetic', 'h_arithmetic', quick=dict(timeout=150), thorough=dict(timeout=900),
       canary=None, functions=_F, stubs=_STUB,
       symbolic='two corpus counts (any integers 0..1000), distribute_weight',
       bounds='fixed diamond graph, smoothing 1.0; bug hunting only unless it closes (mixed '
              'integer/real arithmetic is slow in the solver)'),
    Ob('recompute', 'h_recompute', quick=dict(timeout=120), canary=None, functions=_F,
       stubs=_STUB, symbolic='count in {0,3}, smoothing in {0,0.25}, distribute_weight',
       bounds='diamond graph; compute() called twice on the same Wordnet object'),
    Ob('adjectives', 'h_adjectives', parts=3, quick=dict(timeout=200),
       thorough=dict(timeout=900), canary=[('sat-not-adj', 0)], functions=_F, stubs=_STUB,
       symbolic='3 adjacency bits of a DAG (both labellings), a/s per node, smoothing in {0,0.25}',
       bounds='3 nodes of pos a or s'),
    Ob('load', 'h_load', quick=dict(timeout=200), thorough=dict(timeout=900),
       canary=[('root-flag', 0)], functions=['wn.ic.load', 'wn.ic._parse_ic_file',
                                             'wn.ic._initialize'],
       stubs=['pathlib.Path / file object: a fake file of three lines'],
       symbolic='offset, ROOT flag and weight text (from ' + repr(WEIGHT_TEXTS) + ': integer, '
                'decimal, exponent, no leading digit) of two lines, pos of the second',
       bounds='header + 2 lines; 3-synset wordnet'),
]
