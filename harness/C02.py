"""C02 - WN-LMF load/dump is a lossless round trip in every supported version.

The real writer runs on a resource in the loader's normal form whose attribute values are
symbolic strings and whose texts / lexicon-level attributes come from pools with XML-special
characters; vf.lmfbridge feeds what it wrote into the real reader handlers and _validate.
Escaping is checked separately against a reference un-escaper.
"""
from vf import rt
from vf.chx import Ob

CANARIES = {
    'example-meta-dropped': ('wn.lmf', "    elem = ET.Element('Example', attrib=_meta_dict(example.get('meta')))",
                             "    elem = ET.Element('Example')"),
    'text-assigned-not-appended': ('wn.lmf', "            parent['text'] += data", "            parent['text'] = data"),
    'shared-empty-meta': [('wn.lmf', "    else:\n        d = {}\n    return d", "    else:\n        d = _NO_META\n    return d\n\n\n_NO_META: dict = {}"),
                          ('wn.lmf', "    elem = ET.Element('Example', attrib=_meta_dict(example.get('meta')))\n    elem.text = example['text']\n    if example.get('language'):\n        elem.set('language', example['language'])",
                           "    attrib = _meta_dict(example.get('meta'))\n    if example.get('language'):\n        attrib['language'] = example['language']\n    elem = ET.Element('Example', attrib=attrib)\n    elem.text = example['text']")],
    'subcat-not-split': ('wn.lmf', "        if elem.get('subcat'):\n            elem['subcat'] = elem['subcat'].split()", "        if elem.get('subcat'):\n            elem['subcat'] = [elem['subcat']]"),
    'lexicon-newline': ('wn.lmf', "        f'{attr}={quoteattr(str(val))}' for attr, val in attrib.items()",
                        "        f'{attr}=\"' + str(val).replace('&', '&amp;').replace('<', '&lt;').replace('\"', '&quot;') + '\"' for attr, val in attrib.items()"),
    'pron-phonemic': ('wn.lmf', "    if not pron.get('phonemic', True):\n        attrib['phonemic'] = 'false'", "    if pron.get('phonemic') is False and False:\n        attrib['phonemic'] = 'false'"),
}
rt.setup(canaries=CANARIES)

import xml.etree.ElementTree as ET  # noqa: E402
from xml.sax.saxutils import quoteattr  # noqa: E402
import wn  # noqa: E402,F401
from wn import lmf  # noqa: E402
from vf import docs  # noqa: E402
from vf import lmfbridge as B  # noqa: E402

TECHNIQUE = 'CrossHair symbolic execution of the real wn.lmf writer and reader handlers joined by a ' \
            'tree-to-event bridge; escaping functions checked against a reference un-escaper on ' \
            'symbolic strings'
ASSUMPTIONS = [
    'expat / ElementTree framing is replaced by the bridge of vf/lmfbridge.py (an element written '
    'by ElementTree is delivered with the same tag, attributes, text - possibly in two chunks - and '
    'nesting; dc: attributes arrive namespace-qualified); the <Lexicon> start tag is taken from the '
    'real output and parsed by a reference parser',
    'resources are in the loader normal form; equality is modulo: absent = empty optional '
    'attribute, absent = default boolean, metadata without values = None',
]

VERSIONS = ['1.0', '1.1', '1.2', '1.3']
TEXTS = ['t', 'two words', '<a & "b">', "it's é"]
ATTRS = ['v', 'a b', '<&>"', "x'y\"z", 'tab\there', 'line\nbreak']
MAXS = 2


def _pick(options, k):
    for n in range(len(options)):
        if k == n:
            return options[n]
    return options[0]


def _check(res, split):
    loaded, trees = B.dump_to_events(res, split_text=split)
    ok = B.canon(loaded) == B.canon(res)
    if not rt.SYM and not ok:
        rt.log('difference: ' + str(docs.first_difference(B.canon(res), B.canon(loaded))))
    again, trees2 = B.dump_to_events(loaded, split_text=False)
    ok = ok and trees2 == trees and B.canon(again) == B.canon(loaded)
    return ok


def h_roundtrip(script1: str, tagcat1: str, adjposition: str, srel_type: str, dcv: str,
                lang: str, sspos1: str, ili1: str, kt: int, has_a: bool, has_b: bool,
                split: bool) -> bool:
    """
    pre: 1 <= len(script1) <= MAXS and 1 <= len(tagcat1) <= MAXS and 1 <= len(adjposition) <= MAXS
    pre: 1 <= len(srel_type) <= MAXS and 1 <= len(dcv) <= MAXS and 1 <= len(lang) <= MAXS
    pre: 1 <= len(sspos1) <= MAXS and 1 <= len(ili1) <= MAXS and 0 <= kt < 4
    post: _
    """
    version = VERSIONS[rt.part(4)[0]]
    style = '1.0' if version == '1.0' else '1.1'
    text = _pick(TEXTS, kt)
    sym = dict(script1=script1, fscript1=script1, tagcat1=tagcat1, adjposition=adjposition,
               srel_type=srel_type, srel_meta_type=dcv, sx1_meta_source=dcv, e1_meta_source=dcv,
               ssx1_meta_source=dcv, def1_meta_source=dcv, count1_meta_source=dcv,
               ilidef2_meta_source=dcv, sx1_lang=lang, def1_lang=lang, ssx1_lang=lang,
               sspos1=sspos1, ili1=ili1, sx1=text, def1=text, ssx1=text, ilidef2=text, tag1=text,
               pron1=text, has_sx1_meta=has_a, has_ssx1_meta=has_a, has_def1_meta=has_a,
               has_count1_meta=has_a, has_e1_meta=has_a, has_srel_meta=has_b,
               has_adjposition=has_b, has_ssx1_lang=has_b, has_sx1_lang=has_b,
               has_s1_lexicalized=has_b, has_pron_phonemic=has_b, has_requires_url=has_a,
               has_frame_id2=has_b, has_members=has_a, has_ss1_ilidef=False)
    p = docs.P(sym)
    res = docs.resource([docs.lexicon_rich(p, style=style)], version)
    return rt.verdict(_check(res, split))


def h_extension(xtag: str, xrel: str, kt: int, has_a: bool, split: bool) -> bool:
    """
    pre: 1 <= len(xtag) <= MAXS and 1 <= len(xrel) <= MAXS and 0 <= kt < 4
    post: _
    """
    version = VERSIONS[1 + rt.part(3)[0]]
    text = _pick(TEXTS, kt)
    pb = docs.P()
    px = docs.P(dict(xxtagcat1=xtag, xxsrel_type=xrel, xxssr_type=xrel, xxsx1=text, xxdef1=text,
                     xxssx1=text, xxtag1=text, has_xxlemma_tag=has_a, has_xxs_count=has_a,
                     has_xxss_def=has_a, has_xxlemma_pron=has_a, has_xxform_pron=not has_a,
                     xxpron1=text, xxfpron1=text))
    res = docs.resource([docs.lexicon_rich(pb, style='1.1'), docs.extension_rich(px)], version)
    return rt.verdict(_check(res, split))


def h_lexicon_tag(k1: int, k2: int, k3: int, has_url: bool, has_meta: bool) -> bool:
    """
    pre: 0 <= k1 < 6 and 0 <= k2 < 6 and 0 <= k3 < 6
    pre: rt.THOROUGH or (k2 == (k1 + 1) % 6 and k3 == (k1 + 2) % 6)
    post: _
    """
    # the hand-written <Lexicon ...> start tag: values with quotes, angle brackets,
    # ampersands, tabs and newlines
    version = VERSIONS[rt.part(4)[0]]
    a, b, c = _pick(ATTRS, k1), _pick(ATTRS, k2), _pick(ATTRS, k3)
    sym = dict(label=a, email=b, license=c, url=a, citation=b, logo=c, lex_meta_title=a,
               lex_meta_source=c, language=b, has_url=has_url, has_citation=has_url,
               has_logo=has_url, has_lex_meta=has_meta)
    p = docs.P(sym)
    style = '1.0' if version == '1.0' else '1.1'
    res = docs.resource([docs.lexicon_rich(p, style=style)], version)
    return rt.verdict(_check(res, False))


MAXE = 3 if rt.THOROUGH else 2


QCH = ['a', '"', "'", '&', '<', '>', '\n', '\t', '\r', ' ', '', 'é']


def h_escape_attr(s: str, k0: int, k1: int, k2: int) -> bool:
    """
    pre: len(s) <= MAXE and 0 <= k0 < 12 and 0 <= k1 < 12 and 0 <= k2 < 12
    pre: (rt.part(2)[0] == 0 and k0 == 0 and k1 == 0 and k2 == 0) or (rt.part(2)[0] == 1 and len(s) == 0)
    post: _
    """
    which = rt.part(2)[0]
    if which == 1:
        # quoteattr formats with '%s' (which forces a concrete string): characters by index
        s = _pick(QCH, k0) + _pick(QCH, k1) + _pick(QCH, k2)
    if which == 0:
        esc = ET._escape_attrib(s)
    else:
        q = quoteattr(s)
        if not (len(q) >= 2 and q[0] == q[-1] and q[0] in '"\''):
            return False
        esc = q[1:-1]
        if q[0] in esc:
            return False       # the delimiter must not occur unescaped inside the value
    ok = B.unescape_ref(esc, attribute=True) == s
    for bad in '<':
        ok = ok and bad not in esc
    if which == 0:
        ok = ok and '"' not in esc
    return rt.verdict(ok)


def h_escape_text(s: str) -> bool:
    """
    pre: len(s) <= 3
    post: _
    """
    esc = ET._escape_cdata(s)
    ok = B.unescape_ref(esc) == s and '<' not in esc
    amp = [i for i in range(len(esc)) if esc[i] == '&']
    for i in amp:
        ok = ok and (esc[i:i + 5] == '&amp;' or esc[i:i + 4] in ('&lt;', '&gt;'))
    return rt.verdict(ok)


def h_whitespace(t: str) -> bool:
    """
    pre: len(t) <= 4
    post: _
    """
    # the reader's normalisation is idempotent (so what load() returns is a fixed point of it)
    n1 = ' '.join(t.split())
    return rt.verdict(' '.join(n1.split()) == n1)


_FW = ['wn.lmf._dump_lexicon', '_build_lexicon_attrib', '_dump_dependency', '_dump_lexical_entry',
       '_build_lemma', '_build_form', '_build_pronunciation', '_build_tag', '_build_sense',
       '_build_example', '_build_count', '_dump_synset', '_build_definition',
       '_build_ili_definition', '_build_relation', '_dump_syntactic_behaviour',
       '_build_syntactic_behaviour', '_meta_dict', '_indent']
_FR = ['wn.lmf._make_parser: start / char_data / end handlers', '_validate', '_validate_lexicon',
       '_validate_entries', '_validate_forms', '_validate_senses', '_validate_frames',
       '_validate_synsets']
OBLIGATIONS = [
    Ob('roundtrip', 'h_roundtrip', parts=4, quick=dict(timeout=250), thorough=dict(timeout=900),
       canary=[('example-meta-dropped', 1), ('text-assigned-not-appended', 0),
               ('shared-empty-meta', 2), ('subcat-not-split', 1), ('pron-phonemic', 1)],
       functions=_FW + _FR, stubs=['vf.lmfbridge (expat / ElementTree framing)'],
       symbolic='scripts, tag category, adjposition, relation type, metadata values, languages, '
                'synset pos, ILI (strings of length 1-2, any code point); one text from ' + str(TEXTS)
                + ' for every text field; two groups of presence bits; whether expat delivers text in '
                'two chunks',
       bounds='rich skeleton (2 entries, 3 forms, 3 senses, 3 synsets, frames, counts, examples, '
              'definitions, relations, metadata on every element that allows it); one partition per '
              'version ' + str(VERSIONS) + '; also dump(load(dump r)) = dump r as element trees'),
    Ob('roundtrip-extension', 'h_extension', parts=3, quick=dict(timeout=250),
       thorough=dict(timeout=900), canary=None, functions=_FW + _FR,
       stubs=['vf.lmfbridge'], symbolic='tag category and relation type of the extension, one text, '
       'presence bit, text chunking',
       bounds='resource with a lexicon and its extension (external entries / lemmas / forms / senses '
              '/ synsets); versions 1.1-1.3'),
    Ob('lexicon-tag', 'h_lexicon_tag', parts=4, quick=dict(timeout=250), thorough=dict(timeout=600),
       canary=[('lexicon-newline', 0)], functions=['wn.lmf._dump_lexicon (hand-written start tag)',
                                                   '_build_lexicon_attrib', 'quoteattr'] + _FR[:2],
       stubs=['reference start-tag parser'],
       symbolic='three values from ' + repr(ATTRS) + ' spread over label, email, license, url, '
                'citation, logo, language and lexicon metadata; presence bits',
       bounds='one partition per version'),
    Ob('escape-attribute', 'h_escape_attr', parts=2, quick=dict(timeout=200),
       thorough=dict(timeout=600), canary=None,
       functions=['xml.etree.ElementTree._escape_attrib', 'xml.sax.saxutils.quoteattr'],
       stubs=['reference un-escaper incl. attribute-value normalisation'],
       symbolic='the attribute value: any string of length <= 2 (thorough: 3) over all code points for the ElementTree escaper; 0-3 characters from ' + repr(QCH) + ' for quoteattr',
       bounds='unescape(escape(s)) == s, no raw < or delimiter inside'),
    Ob('escape-text', 'h_escape_text', quick=dict(timeout=200), thorough=dict(timeout=600),
       canary=None, functions=['xml.etree.ElementTree._escape_cdata'],
       stubs=['reference un-escaper'], symbolic='text: any string of length <= 3',
       bounds='unescape(escape(s)) == s, no raw <, every & starts a predefined entity',
       outside='carriage returns in text content are normalised by XML parsers; the loader '
               'normalises white space anyway'),
    Ob('whitespace-normal-form', 'h_whitespace', quick=dict(timeout=200), canary=None,
       functions=["the reader's ' '.join(text.split())"], symbolic='text of length <= 4',
       bounds='idempotence'),
]
