"""C13 - taxonomy functions agree with graph-theoretic definitions on any hypernym graph.

Symbolic: the adjacency bits of the hypernym graph (and, per obligation, the kind of edge,
the part of speech of the nodes, simulate_root, chain lengths of a template graph).  The
real wn.taxonomy functions and Synset.relation_paths / hypernyms / hyponyms run on real
Synset objects; only the SQL relation query is stubbed by the adjacency matrix.
"""
from vf import rt
from vf.chx import Ob

CANARIES = {
    'longest-other-side': ('wn.taxonomy', "        shortest_from_other = min(from_other_subpaths, key=len)[-2::-1]",
                           "        shortest_from_other = max(from_other_subpaths, key=len)[-2::-1]"),
    'no-visited': ('wn._core', "                related = [target for target in path[-1].get_related(*args)\n"
                               "                           if target not in visited]",
                   "                related = [target for target in path[-1].get_related(*args)\n"
                   "                           if target != self]"),
    'visited-shared': ('wn._core', "                        new_visited = visited | {synset}\n"
                                   "                        agenda.append((new_path, new_visited))",
                       "                        visited = visited | {synset}\n"
                       "                        agenda.append((new_path, visited))"),
    'min-is-max': ('wn.taxonomy', "    return min(\n        (len(path) for path in synset.hypernym_paths(simulate_root=simulate_root)),",
                   "    return max(\n        (len(path) for path in synset.hypernym_paths(simulate_root=simulate_root)),"),
    'roots-any': ('wn.taxonomy', "if not ss.hypernyms()]", "if len(ss.hypernyms()) < 2]"),
    'lazy-root': ('wn.taxonomy', "    from_self = _hypernym_paths(synset, simulate_root, True)\n"
                                 "    from_other = _hypernym_paths(other, simulate_root, True)\n"
                                 "    common = set(flatten(from_self)).intersection(flatten(from_other))\n\n"
                                 "    if not common:\n        return {}\n",
                  "    from_self = _hypernym_paths(synset, False, True)\n"
                  "    from_other = _hypernym_paths(other, False, True)\n"
                  "    common = set(flatten(from_self)).intersection(flatten(from_other))\n"
                  "    if not common and simulate_root:\n"
                  "        from_self = _hypernym_paths(synset, True, True)\n"
                  "        from_other = _hypernym_paths(other, True, True)\n"
                  "        common = set(flatten(from_self)).intersection(flatten(from_other))\n\n"
                  "    if not common:\n        return {}\n"),
}
rt.setup(canaries=CANARIES)

import wn  # noqa: E402
from wn import taxonomy as T  # noqa: E402
from vf import graph as G  # noqa: E402

TECHNIQUE = 'CrossHair symbolic execution of the real wn.taxonomy / Synset.relation_paths on ' \
            'graphs whose adjacency bits are symbolic, against textbook definitions; ' \
            'exhaustive over all graphs inside the node bound'
ASSUMPTIONS = [
    'the SQL relation query is replaced by a stub returning the edges of the symbolic adjacency '
    'matrix in the column layout of wn._queries.get_synset_relations (targets in rowid order); '
    'counterexamples are replayed on a real database built from the graph',
]

N = 4 if not rt.THOROUGH else 5
NPAIRS = {4: 6, 5: 10}[N]
UPAIRS = [(a, b) for a in range(N) for b in range(a, N)]   # both directions are checked inside
UPAIRS3 = [(a, b) for a in range(3) for b in range(a, 3)]


def _adj(n, bits, reverse):
    adj = [[False] * n for _ in range(n)]
    k = 0
    for i in range(n):
        for j in range(i + 1, n):
            if reverse:
                adj[j][i] = bits[k]
            else:
                adj[i][j] = bits[k]
            k += 1
    return adj


def _adj_full(n, bits):
    adj = [[False] * n for _ in range(n)]
    k = 0
    for i in range(n):
        for j in range(n):
            adj[i][j] = bits[k]
            k += 1
    return adj


def _ids(g, synsets):
    return [g.idx(s) for s in synsets]


def _paths(g, paths):
    return sorted(_ids(g, p) for p in paths)


def _with_root(chs, sim):
    if not sim:
        return sorted(chs)
    return sorted([c + [None] for c in chs] or [[None]])


# -- single-node functions -------------------------------------------------------

def _check_node(g, x, sim):
    try:
        want = _with_root(G.chains(g, x), sim)
        got = _paths(g, T.hypernym_paths(g.ss(x), simulate_root=sim))
        ok = got == want
        lens = [len(p) for p in want]
        ok = ok and T.min_depth(g.ss(x), simulate_root=sim) == (min(lens) if lens else 0)
        ok = ok and T.max_depth(g.ss(x), simulate_root=sim) == (max(lens) if lens else 0)
        ok = ok and _paths(g, g.ss(x).hypernym_paths(simulate_root=sim)) == want
        ok = ok and sorted(_ids(g, g.ss(x).hypernyms())) == sorted(g.hypers(x))
        ok = ok and sorted(_ids(g, g.ss(x).hyponyms())) == sorted(g.hypos(x))
    except G.Budget:
        return False
    return ok


def h_node_dag(b0: bool, b1: bool, b2: bool, b3: bool, b4: bool, b5: bool, b6: bool,
               b7: bool, b8: bool, b9: bool, sim: bool) -> bool:
    """
    post: _
    """
    part = rt.part(2 * N)[0]
    x, rev = part % N, part // N == 1
    bits = [b0, b1, b2, b3, b4, b5, b6, b7, b8, b9][:NPAIRS]
    g = G.Graph(N, _adj(N, bits, rev))
    return rt.verdict(_check_node(g, x, sim))


def h_node_digraph(b0: bool, b1: bool, b2: bool, b3: bool, b4: bool, b5: bool, b6: bool,
                   b7: bool, b8: bool, sim: bool, i0: bool, i1: bool, i2: bool) -> bool:
    """
    post: _
    """
    # all labelled digraphs on 3 nodes incl. self-loops and cycles; three of the edges may
    # be instance_hypernym instead of hypernym
    x = rt.part(3)[0] % 3
    adj = _adj_full(3, [b0, b1, b2, b3, b4, b5, b6, b7, b8])
    if not rt.THOROUGH:
        i0 = i1 = i2 = sim = False   # quick tier: hypernym edges only, no simulated root
    inst = [[i0, False, i1], [False, False, i2], [i1, i0, False]]
    g = G.Graph(3, adj, inst=inst, budget=600)
    return rt.verdict(_check_node(g, x, sim))


# -- pair functions ------------------------------------------------------------------

def _check_pair(g, a, b, sim, dag):
    try:
        A, B = g.ss(a), g.ss(b)
        anc_a, anc_b = G.ancestors(g, a), G.ancestors(g, b)
        common = sorted(c for c in anc_a if c in anc_b)
        got_common = _ids(g, T.common_hypernyms(A, B, simulate_root=sim))
        want_common = common + ([None] if sim else [])
        ok = sorted(got_common, key=lambda v: -1 if v is None else v) == \
            sorted(want_common, key=lambda v: -1 if v is None else v)
        ok = ok and sorted(_ids(g, A.common_hypernyms(B, simulate_root=sim)),
                           key=lambda v: -1 if v is None else v) == \
            sorted(want_common, key=lambda v: -1 if v is None else v)
        # distances; the simulated root is an extra node above every end of a maximal chain
        cands = [G.dist(g, a, c) + G.dist(g, b, c) for c in common]
        if sim and dag:
            ra = min(len(p) for p in (G.chains(g, a) or [[]])) + 1
            rb = min(len(p) for p in (G.chains(g, b) or [[]])) + 1
            if a != b:
                cands.append(ra + rb)
        if a == b:
            ok = ok and T.shortest_path(A, B, simulate_root=sim) == []
            ok = ok and _ids(g, T.lowest_common_hypernyms(A, B, simulate_root=sim)) == [a]
            return ok
        if not cands and sim and not dag:
            return ok       # cyclic graph with a simulated root: only the claims above
        if not cands:
            raised = False
            try:
                T.shortest_path(A, B, simulate_root=sim)
            except wn.Error:
                raised = True
            ok = ok and raised
            ok = ok and T.lowest_common_hypernyms(A, B, simulate_root=sim) == []
            return ok
        if dag or not sim:
            path = _ids(g, T.shortest_path(A, B, simulate_root=sim))
            back = _ids(g, T.shortest_path(B, A, simulate_root=sim))
            ok = ok and len(path) == min(cands) and len(back) == len(path)
            ok = ok and _valid_path(g, a, b, path) and _valid_path(g, b, a, back)
            ok = ok and _ids(g, A.shortest_path(B, simulate_root=sim)) == path
        if dag:
            # lowest = common hypernyms of greatest depth
            depth = {c: G.depth_max(g, c) + (1 if sim else 0) for c in common}
            if sim:
                depth[None] = 0
            top = max(depth.values())
            want_low = sorted((c for c in depth if depth[c] == top),
                              key=lambda v: -1 if v is None else v)
            got_low = _ids(g, T.lowest_common_hypernyms(A, B, simulate_root=sim))
            ok = ok and sorted(got_low, key=lambda v: -1 if v is None else v) == want_low
            ok = ok and got_low == _ids(g, T.lowest_common_hypernyms(B, A, simulate_root=sim))
    except G.Budget:
        return False
    return ok


def _valid_path(g, a, b, path):
    """consecutive synsets linked by hypernymy in either direction (the simulated root is
    linked to every node without further hypernyms), ends at b, a not repeated at the start"""
    if not path or path[-1] != b:
        return False
    prev = a
    for node in path:
        if node is None or prev is None:
            real = node if prev is None else prev
            if real is None:
                return False
        elif not (g.edge(prev, node) or g.edge(node, prev)):
            return False
        prev = node
    return True


def h_pair_dag(b0: bool, b1: bool, b2: bool, b3: bool, b4: bool, b5: bool, b6: bool,
               b7: bool, b8: bool, b9: bool, sim: bool) -> bool:
    """
    post: _
    """
    part = rt.part(2 * len(UPAIRS))[0]
    rev = part // len(UPAIRS) == 1
    a, b = UPAIRS[part % len(UPAIRS)]
    bits = [b0, b1, b2, b3, b4, b5, b6, b7, b8, b9][:NPAIRS]
    g = G.Graph(N, _adj(N, bits, rev))
    return rt.verdict(_check_pair(g, a, b, sim, True))


def h_pair_digraph(b0: bool, b1: bool, b2: bool, b3: bool, b4: bool, b5: bool, b6: bool,
                   b7: bool, b8: bool, sim: bool) -> bool:
    """
    post: _
    """
    a, b = UPAIRS3[rt.part(len(UPAIRS3))[0]]
    if not rt.THOROUGH:
        sim = False
    g = G.Graph(3, _adj_full(3, [b0, b1, b2, b3, b4, b5, b6, b7, b8]), budget=600)
    return rt.verdict(_check_pair(g, a, b, sim, False))


# -- roots, leaves, taxonomy_depth with parts of speech ---------------------------------

POS3 = ['n', 'a', 's']


def _pick(options, k):
    for i in range(len(options)):
        if k == i:
            return options[i]
    return options[0]


def h_pos(b0: bool, b1: bool, b2: bool, b3: bool, b4: bool, b5: bool,
          p0: int, p1: int, p2: int, p3: int, rev: bool) -> bool:
    """
    pre: 0 <= p0 < 3 and 0 <= p1 < 3 and 0 <= p2 < 3 and 0 <= p3 < 3
    pre: rt.THOROUGH or (not b3 and not b4 and not b5 and p3 == 0)
    post: _
    """
    qpos = [None, 'n', 'a', 's'][rt.part(4)[0]]
    nn = 4 if rt.THOROUGH else 3
    pos = [_pick(POS3, p) for p in (p0, p1, p2, p3)][:nn]
    bits = [b0, b1, b2, b3, b4, b5] if nn == 4 else [b0, b1, b2]
    g = G.Graph(nn, _adj(nn, bits, rev), pos=pos)

    def sel(p):
        if p is None:
            return list(range(nn))
        same = ['a', 's'] if p in ('a', 's') else [p]
        return [i for i in range(nn) if pos[i] in same]
    try:
        nodes = sel(qpos)
        ok = sorted(_ids(g, T.roots(g.wordnet, pos=qpos))) == \
            sorted(i for i in nodes if not g.hypers(i))
        ok = ok and sorted(_ids(g, T.leaves(g.wordnet, pos=qpos))) == \
            sorted(i for i in nodes if not g.hypos(i))
        if qpos is not None:
            want = max([G.depth_max(g, i) for i in nodes] or [0])
            ok = ok and T.taxonomy_depth(g.wordnet, qpos) == want
    except G.Budget:
        return False
    return rt.verdict(ok)


# -- template graphs: two synsets with chains of symbolic length ------------------------

def h_routes(la: int, lb: int, lr: int, lc: int, sim: bool, extra: bool) -> bool:
    """
    pre: la == 1 + rt.part(4)[0] and 0 <= lb <= 2 and 0 <= lr <= 2 and 0 <= lc <= 2
    pre: rt.THOROUGH or not extra
    post: _
    """
    # a --la--> c <--lb-- b ; c --lc--> top ; optionally a --lr--> r (a separate root);
    # "extra": a shortcut edge from a's first chain node straight to c
    names = ['a', 'b']
    edges = []

    def chain(src, length, dst):
        prev = src
        for k in range(4):
            if k < length - 1:
                names.append(f'{src}{dst}{k}')
                edges.append((prev, names[-1]))
                prev = names[-1]
        if length >= 1:
            edges.append((prev, dst))
    names.append('c')
    chain('a', la, 'c')
    if lb >= 1:
        chain('b', lb, 'c')
    names.append('top')
    if lc >= 1:
        chain('c', lc, 'top')
    if lr >= 1:
        names.append('r')
        chain('a', lr, 'r')
    if extra and la >= 3:
        edges.append(('ac0', 'c'))
    n = len(names)
    adj = [[False] * n for _ in range(n)]
    for s, t in edges:
        adj[names.index(s)][names.index(t)] = True
    if lb == 0:
        b = names.index('c')
    else:
        b = names.index('b')
    g = G.Graph(n, adj)
    ok = _check_pair(g, 0, b, sim, True) and _check_node(g, 0, sim)
    return rt.verdict(ok)


_F = ['wn.taxonomy.hypernym_paths', '_hypernym_paths', 'min_depth', 'max_depth',
      'wn._core._Relatable.relation_paths', 'Synset.get_related', 'Synset._iter_relations',
      'Synset._iter_local_relations', 'Synset.hypernyms', 'Synset.hyponyms', 'unique_list']
_FP = ['wn.taxonomy._shortest_hyp_paths', 'shortest_path', 'common_hypernyms',
       'lowest_common_hypernyms', 'Synset.shortest_path / common_hypernyms shortcuts'] + _F[1:2] + _F[4:8]
_STUB = ['relation source: adjacency matrix in the layout of get_synset_relations']
OBLIGATIONS = [
    Ob('node-dag', 'h_node_dag', parts=2 * N, quick=dict(timeout=150),
       thorough=dict(timeout=1500), canary=[('visited-shared', 0), ('min-is-max', 0)],
       functions=_F, stubs=_STUB,
       symbolic='adjacency bits, simulate_root',
       bounds=f'all DAGs on {N} nodes in topological labelling and in its reverse; one '
              f'partition per start node and labelling'),
    Ob('node-digraph', 'h_node_digraph', parts=3, quick=dict(timeout=260),
       thorough=dict(timeout=1200), canary=[('no-visited', 0)],
       functions=_F, stubs=_STUB,
       symbolic='9 adjacency bits (self-loops, cycles); thorough tier also 3 edge-kind bits and '
                'simulate_root',
       bounds='all labelled digraphs on 3 nodes; termination via a call budget of 600 relation '
              'queries (exceeding it is a failure, not a time-out)'),
    Ob('pair-dag', 'h_pair_dag', parts=2 * len(UPAIRS), quick=dict(timeout=150),
       thorough=dict(timeout=1500), canary=[('longest-other-side', 2)], twin_parts=[0, 1, N + 1],
       functions=_FP, stubs=_STUB, symbolic='adjacency bits, simulate_root',
       bounds=f'all DAGs on {N} nodes, both labellings, every pair (one partition per unordered pair; both directions checked)'),
    Ob('pair-digraph', 'h_pair_digraph', parts=len(UPAIRS3), quick=dict(timeout=260),
       thorough=dict(timeout=1200), canary=None, twin_parts=[0, 1],
       functions=_FP, stubs=_STUB, symbolic='9 adjacency bits; simulate_root in the thorough tier',
       bounds='all labelled digraphs on 3 nodes, every ordered pair; with cycles only '
              'common_hypernyms, path length/validity without simulate_root and termination '
              'are asserted',
       outside='depth-based claims on cyclic graphs (depth is not well defined there)'),
    Ob('pos', 'h_pos', parts=4, quick=dict(timeout=150), thorough=dict(timeout=1200),
       canary=[('roots-any', 1)], functions=['wn.taxonomy.roots', 'leaves', 'taxonomy_depth',
                                            '_synsets_for_pos'] + _F[4:10],
       stubs=_STUB + ['Wordnet.synsets(pos=...) over the node list'],
       symbolic='adjacency bits of a 3-node (quick) / 4-node (thorough) DAG, both labellings, part of speech of each node '
                'among n, a, s',
       bounds='query pos in None, n, a, s (one partition each); a/s merged'),
    Ob('routes', 'h_routes', parts=4, quick=dict(timeout=150), thorough=dict(timeout=900),
       canary=[('lazy-root', 3)], functions=_FP, stubs=_STUB,
       symbolic='chain lengths la (1-4), lb (0-2), lr (0-2), lc (0-2), simulate_root, a shortcut '
                'edge',
       bounds='template graphs of up to 11 nodes: two synsets joined through a common hypernym '
              'by chains of symbolic length, an optional separate root route, a tail above the '
              'common hypernym'),
]
