"""C05 - database content depends only on which lexicons are installed.

Bounded histories with solver-chosen operations over a universe of related lexicons (two
versions of one id, an extension, an extension of the extension, a lexicon requiring others,
an unrelated lexicon sharing ILIs, an ILI index).  After the history the content of every
installed lexicon equals what adding just the installed lexicons to an empty database gives,
the tables pass a foreign-key and ownership audit, and the dependency links agree with what
is installed.
"""
from vf import rt
from vf.chx import Ob

CANARIES = {
    'relink-any-version': ('wn._add', "         WHERE provider_id = ? AND provider_version = ?\n    '''\n    cur.execute(query, (lexid, lexicon['id'], lexicon['version']))",
                           "         WHERE provider_id = ? AND provider_rowid IS NULL\n    '''\n    cur.execute(query, (lexid, lexicon['id']))"),
    'extensions-shallow-first': ('wn._add', "                for ext_id, ext_spec in reversed(extensions):",
                                 "                for ext_id, ext_spec in extensions:"),
    'skip-if-id-known': ('wn._add', "    lexqry = 'SELECT * FROM lexicons WHERE id = :id AND version = :version'",
                         "    lexqry = 'SELECT * FROM lexicons WHERE id = :id AND version >= :version'"),
    'extension-kept': ('wn._add', "            extensions = _find_all_extensions(rowid)\n", "            extensions = _find_all_extensions(rowid)[:1]\n"),
}
rt.setup(canaries=CANARIES)

import wn  # noqa: E402
import wn._add as A  # noqa: E402
import wn._ili as I  # noqa: E402
from wn.util import ProgressHandler  # noqa: E402
from vf import docs  # noqa: E402

TECHNIQUE = 'CrossHair symbolic execution of the real add_lexical_resource / remove / _add_ili over ' \
            'the SQL model (FK cascades modelled) with the operation sequence chosen by symbolic ' \
            'integers; comparison with a fresh add of the installed lexicons'
ASSUMPTIONS = [
    'SQLite replaced by vf.sqlmodel incl. ON DELETE CASCADE / SET NULL / NO ACTION',
    'cross-lexicon order and the shared inventory of ILIs / relation types / lexfiles are not '
    'compared (the property excepts them)',
    'tags and pronunciations are left out of the comparison while finding C05-tags is open',
]

OPS = ['add B:1', 'add B:2', 'add X:1', 'add XX:1', 'add R:1', 'remove B:1', 'remove B',
       'remove *:1', 'add BAD', 'add BADX', 'remove X:1', 'add U:1', 'remove B:*', 'remove R:1', 'add ili', 'remove XX:1']
NQ = 10      # quick tier: the first 10 operations


def _pick(options, k):
    for n in range(len(options)):
        if k == n:
            return options[n]
    return options[0]


def _docs():
    p = docs.P()
    return {
        'B:1': docs.lexicon_small(p, 'B', ver='1', tag='', ili='i1', ili2='i2', two=True),
        'B:2': docs.lexicon_small(p, 'B', ver='2', tag='', ili='i1', two=True),
        'U:1': docs.lexicon_small(p, 'U', tag='u', ili='i1'),
        'R:1': docs.lexicon_small(p, 'R', tag='r', ili='i2',
                                  requires=[{'id': 'B', 'version': '1'}, {'id': 'Z', 'version': '9'}]),
        'X:1': docs.extension_small(p, 'X', base=('B', '1'), tag='x', btag=''),
        'XX:1': docs.extension_small(p, 'XX', base=('X', '1'), tag='y', btag='x', second=False),
        'BAD': _bad(p),
        'BADX': _badx(p),
    }


def _badx(p):
    # an extension of B:1 whose relation points nowhere (skipped while B:1 is not installed,
    # failing late otherwise)
    ext = docs.extension_small(p, 'ZX', base=('B', '1'), tag='zx', btag='')
    ext['entries'][1]['senses'][0]['relations'] = [{'target': 'nowhere', 'relType': 'also', 'meta': None}]
    return ext


def _bad(p):
    # a lexicon whose last sense relation points nowhere: the add fails late, with wn.Error
    lex = docs.lexicon_small(p, 'Z', tag='z', ili='i2', two=True)
    lex['entries'][1]['senses'][1]['relations'] = [{'target': 'nowhere', 'relType': 'also', 'meta': None}]
    return lex


BASE_OF = {'X:1': 'B:1', 'XX:1': 'X:1'}


class _FakeFile:
    def __init__(self, lines):
        self._lines = lines

    def __enter__(self):
        return iter(self._lines)

    def __exit__(self, *a):
        return False


class _FakePath:
    def __init__(self, name):
        self.name = str(name)

    def expanduser(self):
        return self

    def open(self, *a, **k):
        return _FakeFile(['ili\tstatus\tdefinition\n', 'i1\tactive\tone\n', 'i5\tactive\tfive\n'])

    def __str__(self):
        return self.name


def _select(spec, installed):
    """documented specifier semantics over the installed list (insertion order)"""
    lid, _, ver = spec.partition(':')
    if not _:
        hits = [s for s in installed if s.split(':')[0] == lid]
        return hits[-1:]
    return [s for s in installed
            if (lid == '*' or s.split(':')[0] == lid) and (ver == '*' or s.split(':')[1] == ver)]


def _extensions_of(spec, installed):
    out = []
    for s in installed:
        if BASE_OF.get(s) == spec:
            out.append(s)
            out.extend(_extensions_of(s, installed))
    return out


def _apply(op, installed, world):
    """run the real operation; update the expected installed list"""
    kind, _, arg = op.partition(' ')
    if kind == 'add' and arg == 'ili':
        I.Path = _FakePath
        A._add_ili(_FakePath('ili.tsv'), ProgressHandler(message=''))
        return installed
    if kind == 'add' and arg in ('BAD', 'BADX'):
        try:
            rt.quiet_add(docs.resource([world[arg]], '1.1'))
        except wn.Error:
            return installed          # a failed add leaves what is installed as it was
        if arg == 'BADX' and 'B:1' not in installed:
            return installed          # skipped: its base is not installed
        return installed + ['Z:1' if arg == 'BAD' else 'ZX:1']    # (not expected: invalid)
    if kind == 'add':
        rt.quiet_add(docs.resource([world[arg]], '1.1'))
        if arg in installed:
            return installed
        if arg in BASE_OF and BASE_OF[arg] not in installed:
            return installed
        return installed + [arg]
    try:
        wn.remove(arg, progress_handler=None)
    except wn.Error:
        pass          # nothing matched: nothing may have changed
    gone = []
    for s in _select(arg, installed):
        if s not in gone:
            gone.append(s)
            for e in _extensions_of(s, installed):
                if e not in gone:
                    gone.append(e)
    return [s for s in installed if s not in gone]


_REF = {}


def _reference(installed, world, tags):
    """observation of every installed non-extension lexicon in a database to which just the
    installed lexicons were added (cached per installed set: everything here is concrete)"""
    key = (tuple(sorted(installed)), tags)
    if key not in _REF:
        rt.DB(fresh=False)
        rt.stub_normalizer()
        order = [s for s in ('B:1', 'B:2', 'U:1', 'R:1', 'X:1', 'XX:1') if s in installed]
        for s in order:
            rt.quiet_add(docs.resource([world[s]], '1.1'))
        _REF[key] = {s: _observe(s, installed, tags) for s in installed}
    return _REF[key]


def _strip_tags(obs):
    out = {k: [list(r) for r in v] if k != 'lexicon' else list(v) for k, v in obs.items()}
    for w in out['words']:
        w[2] = [[f[0], f[1], f[2], [], []] for f in w[2]]
    return out


def _observe(spec, installed, tags):
    """the lexicon together with its installed extension family, through the public API"""
    fam = [spec] + _extensions_of(spec, installed)
    w = wn.Wordnet(' '.join(fam), expand='')
    out = []
    for word in (w.words() if spec not in BASE_OF else []):
        out.append(['word', word.id, word.lexicon().specifier(),
                    [[str(f), f.id, f.script] + ([[(t.tag, t.category) for t in f.tags()]] if tags else [])
                     for f in word.forms()],
                    [[s.id, s.lexicon().specifier(), s.synset().id, s.examples(),
                      [[r.name, t.id, r.lexicon().specifier()] for r, t in s.relation_map().items()],
                      [t.id for t in s.get_related_synsets()]] for s in word.senses()]])
    for ss in (w.synsets() if spec not in BASE_OF else []):
        out.append(['synset', ss.id, ss.lexicon().specifier(), ss._ili, ss.definition(),
                    ss.examples(), [s.id for s in ss.senses()],
                    [[r.name, t.id, r.lexicon().specifier()] for r, t in ss.relation_map().items()]])
    lx = [x for x in w.lexicons() if x.specifier() == spec][0]
    out.append(['lexicon', lx.id, lx.version, lx.label,
                sorted((k, v.specifier() if v else None) for k, v in lx.requires().items()),
                lx.extends().specifier() if lx.extends() else None,
                sorted(e.specifier() for e in lx.extensions(depth=-1))])
    return out


def _audit(db, installed):
    """foreign keys resolve; every row is owned by an installed lexicon (model tables /
    PRAGMA foreign_key_check in replay)"""
    dump = db.dump()
    lexrows = {r[0]: f'{r[1]}:{r[6]}' for r in dump['lexicons']}
    ok = sorted(lexrows.values()) == sorted(installed)
    if rt.SYM:
        schema = db.conn.db.schema
        for t, sch in schema.items():
            cols = sch['cols']
            for col, part, parcol, _ondel in sch['fks']:
                pcols = schema[part]['cols']
                pi = pcols.index(parcol or schema[part]['pk'][0])
                parents = [r[pi] for r in dump[part]]
                for r in dump[t]:
                    v = r[cols.index(col)]
                    if v is not None and v not in parents:
                        ok = False
            if 'lexicon_rowid' in cols:
                for r in dump[t]:
                    if r[cols.index('lexicon_rowid')] not in lexrows:
                        ok = False
    else:
        ok = ok and list(db.conn.execute('PRAGMA foreign_key_check')) == []
    return ok


def h_history(k1: int, k2: int, k3: int) -> bool:
    """
    pre: k1 == rt.part(NPARTS)[0] % NOPS and 0 <= k2 < NOPS and 0 <= k3 < NOPS
    post: _
    """
    world = _docs()
    tags = not rt.finding_open('C05-tags')
    db = rt.DB()
    rt.eager_progress(db)
    rt.stub_normalizer()
    installed = []
    ok = True
    prefix = ['add B:1'] if rt.part(NPARTS)[0] // NOPS == 1 else []
    for op in prefix + [_pick(OPS, k) for k in (k1, k2, k3)]:
        installed = _apply(op, installed, world)
        ok = ok and not db.in_transaction()
    ok = ok and [lx.specifier() for lx in wn.lexicons()] == installed
    ok = ok and _audit(db, installed)
    got = {s: _observe(s, installed, tags) for s in installed}
    ref = _reference(installed, world, tags)
    # _reference switched to another database; nothing below may touch the first one
    for s in installed:
        ok = ok and got[s] == ref[s]
    return rt.verdict(ok)


def h_tag_residue(k: int) -> bool:
    """
    pre: 0 <= k < 1
    post: _
    """
    # witness of finding C05-tags: the tag an extension puts on a lemma of its base survives
    # the removal of the extension
    world = _docs()
    rt.DB()
    rt.stub_normalizer()
    installed = []
    for op in ('add B:1', 'add X:1', 'remove X:1'):
        installed = _apply(op, installed, world)
    got = _observe('B:1', installed, True)
    ref = _reference(installed, world, True)
    return rt.verdict(got == ref['B:1'])


NOPS = len(OPS) if rt.THOROUGH else NQ
NPARTS = 2 * NOPS
_F = ['wn._add.add_lexical_resource', '_precheck', '_insert_lexicon (dependency re-linking)',
      'wn._add.remove', '_find_all_extensions', 'wn._add._add_ili',
      'wn._queries.find_lexicons / get_lexicon_extensions / get_lexicon_extension_bases / '
      'get_lexicon_dependencies', 'wn._core.Lexicon.requires/extends/extensions',
      'schema.sql foreign-key actions (through the model)']
OBLIGATIONS = [
    Ob('histories', 'h_history', parts=NPARTS, quick=dict(timeout=280), thorough=dict(timeout=2400),
       canary=[('relink-any-version', 4), ('extensions-shallow-first', NOPS + 2),
               ('skip-if-id-known', 1), ('extension-kept', NOPS + 2)],
       functions=_F,
       stubs=['vf.sqlmodel', 'normalize_form = identity', 'fake ILI file',
              'SQLite progress handler: runs in every statement (model) / every VM instruction '
              '(replay) - its real period depends on the size of the database'],
       symbolic='the three operations of the history, each from ' + str(OPS[:NOPS]),
       bounds='all histories of 3 operations over the alphabet, from the empty database and from '
              'one that holds B:1 (partition = start state x first operation); '
              'universe: B:1, B:2, X:1 extending B:1, XX:1 extending X:1, R:1 requiring B:1 and a '
              'lexicon that never exists, an invalid lexicon and an invalid extension whose add fails, U:1 sharing ILIs, an ILI index (thorough tier: 16 '
              'operations)',
       outside='histories longer than 3 operations'),
]
