"""C09 - word-form search follows the documented exact / normalized / lemmatized procedure.

Document-driven: a lexicon whose written forms, parts of speech and the query are chosen by
symbolic indexes from a pool with case and diacritic variants; the real normalize_form is
used both when adding and when querying; configurations (normalizer on/off, search_all_forms,
lemmatizer none / custom / Morphy) are partitions.
"""
from vf import rt
from vf.chx import Ob

CANARIES = {
    'always-normalize': ('wn._core', "    if not results and normalize:", "    if normalize:"),
    'per-group-fallback': ('wn._core', "    results = [\n        cls(*data, _wordnet=w)  # type: ignore\n        for _pos, _forms in forms.items()\n        for data in query_func(forms=_forms, pos=_pos, **kwargs)\n    ]\n    if not results and normalize:\n        results = [\n            cls(*data, _wordnet=w)  # type: ignore\n            for _pos, _forms in forms.items()\n            for data in query_func(\n                forms=[normalize(f) for f in _forms], pos=_pos, **kwargs\n            )\n        ]",
                           "    results = []\n    for _pos, _forms in forms.items():\n        found = [cls(*data, _wordnet=w) for data in query_func(forms=_forms, pos=_pos, **kwargs)]\n        if not found and normalize:\n            found = [cls(*data, _wordnet=w) for data in query_func(\n                forms=[normalize(f) for f in _forms], pos=_pos, **kwargs)]\n        results.extend(found)"),
    'synsets-precedence': ('wn._queries', "                 WHERE (f.form IN wordforms {or_norm}) {and_rank}) AS s",
                           "                 WHERE f.form IN wordforms {or_norm} {and_rank}) AS s"),
    'pos-ignored': ('wn._core', "        for data in query_func(forms=_forms, pos=_pos, **kwargs)\n    ]\n    if not results and normalize:",
                    "        for data in query_func(forms=_forms, pos=pos, **kwargs)\n    ]\n    if not results and normalize:"),
    'norm-stored-always': ('wn._add', "                     written_form, norm if norm != written_form else None,\n                     entry['lemma'].get('script'), 0)",
                           "                     written_form, written_form,\n                     entry['lemma'].get('script'), 0)"),
}
rt.setup(canaries=CANARIES)

import wn  # noqa: E402
from wn._util import normalize_form as N  # noqa: E402
from wn.morphy import Morphy  # noqa: E402
from vf import docs  # noqa: E402

TECHNIQUE = 'CrossHair symbolic execution of the real _find_helper / find_entries / find_senses / ' \
            'find_synsets (SQL on the model) and _insert_forms with index-chosen forms, query, ' \
            'parts of speech and lemmatizer proposals, against the documented three-level procedure'
ASSUMPTIONS = [
    'forms and queries range over a pool with case / diacritic variants and a suffixed form; '
    'what normalize_form does to Unicode in general is outside (the real function is used)',
    'SQLite replaced by vf.sqlmodel',
]

POOL = ['a', 'A', 'b', 'á', 'as'] if rt.THOROUGH else ['a', 'A', 'as']
NP = len(POOL)
POSQ = [None, 'n', 'v']
CONFIGS = [(nz, allf, lem) for nz in (True, False) for allf in (True, False)
           for lem in ('none', 'custom', 'morphy')]


def _pick(options, k):
    for n in range(len(options)):
        if k == n:
            return options[n]
    return options[0]


def _lexicon(a1, a2, b1, p2):
    def entry(eid, pos, lemma, forms, sid, ss):
        return {'id': eid, 'meta': None, 'lemma': {'writtenForm': lemma, 'partOfSpeech': pos},
                'forms': [{'writtenForm': f} for f in forms],
                'senses': [{'id': sid, 'synset': ss, 'meta': None}]}
    return {'id': 'L', 'version': '1', 'label': 'l', 'language': 'en', 'email': 'e',
            'license': 'x', 'meta': None,
            'entries': [entry('e1', 'n', a1, [a2] if a2 != a1 else [], 's1', 'ss1'),
                        entry('e2', p2, b1, [], 's2', 'ss2')],
            'synsets': [{'id': 'ss1', 'ili': '', 'partOfSpeech': 'n', 'meta': None},
                        {'id': 'ss2', 'ili': '', 'partOfSpeech': p2, 'meta': None}]}


def _match(lex, form, pos, normalized, all_forms):
    """entry ids with a stored form equal to *form* or (normalizer active) whose stored
    normalized form equals *form*"""
    out = []
    for e in lex['entries']:
        if pos is not None and e['lemma']['partOfSpeech'] != pos:
            continue
        forms = [e['lemma']['writtenForm']] + \
            ([f['writtenForm'] for f in e.get('forms', [])] if all_forms else [])
        hit = False
        for f in forms:
            if f == form:
                hit = True
            if normalized and N(f) != f and N(f) == form:
                hit = True
        if hit:
            out.append(e['id'])
    return out


def _expected(lex, q, pos, normalizer, all_forms, proposals):
    pairs = proposals if proposals else [(pos, [q])]
    res = []
    for p, forms in pairs:
        for f in forms:
            for eid in _match(lex, f, p, normalizer, all_forms):
                if eid not in res:
                    res.append(eid)
    if not res and normalizer:
        for p, forms in pairs:
            for f in forms:
                for eid in _match(lex, N(f), p, normalizer, all_forms):
                    if eid not in res:
                        res.append(eid)
    return res


def h_search(ka1: int, ka2: int, kb1: int, v2: bool, kq: int, kpos: int, kx: int, ky: int) -> bool:
    """
    pre: 0 <= ka1 < NP and 0 <= ka2 < NP and 0 <= kb1 < NP and 0 <= kq < NP and 0 <= kpos < 3
    pre: 0 <= kx < NP and 0 <= ky < NP
    pre: CONFIGS[rt.part(len(CONFIGS))[0]][2] == 'custom' or (kx == 0 and ky == 0)
    pre: CONFIGS[rt.part(len(CONFIGS))[0]][2] != 'custom' or (ka2 == 0 and kpos == 0)
    post: _
    """
    normalizer, all_forms, lem = CONFIGS[rt.part(len(CONFIGS))[0]]
    a1, a2, b1 = _pick(POOL, ka1), _pick(POOL, ka2), _pick(POOL, kb1)
    q, pos = _pick(POOL, kq), _pick(POSQ, kpos)
    lex = _lexicon(a1, a2, b1, 'v' if v2 else 'n')
    rt.DB()
    rt.quiet_add(docs.resource([lex], '1.0'))
    proposals = None
    lemmatizer = None
    if lem == 'custom':
        x, y = _pick(POOL, kx), _pick(POOL, ky)
        proposals = [('n', [x]), ('v', [y])]

        def lemmatizer(form, p):
            return rt.mkdict([('n', rt.mkset([x])), ('v', rt.mkset([y]))])
    elif lem == 'morphy':
        m = Morphy()
        lemmatizer = m
        got = m(q, pos)
        proposals = [(p, sorted(got[p])) for p in got]
    kw = {}
    if not normalizer:
        kw['normalizer'] = None
    w = wn.Wordnet('L:1', lemmatizer=lemmatizer, search_all_forms=all_forms, **kw)
    want = _expected(lex, q, pos, normalizer, all_forms, proposals)
    sense_of = {'e1': 's1', 'e2': 's2'}
    synset_of = {'e1': 'ss1', 'e2': 'ss2'}
    words = [x.id for x in w.words(q, pos)]
    ok = sorted(words) == sorted(want) and len(words) == len(set(words))
    senses = [x.id for x in w.senses(q, pos)]
    ok = ok and sorted(senses) == sorted(sense_of[e] for e in want) and len(senses) == len(set(senses))
    # synsets(form, pos): pos filters the *synset's* part of speech (same as the word's here)
    synsets = [x.id for x in w.synsets(q, pos)]
    ok = ok and sorted(synsets) == sorted(synset_of[e] for e in want) \
        and len(synsets) == len(set(synsets))
    # corollary: without a lemmatizer an exactly stored form is always found
    if lem == 'none' and pos is None:
        stored = [a1, b1] + ([a2] if all_forms else [])
        if q in stored:
            ok = ok and len(words) >= 1
    return rt.verdict(ok)


_F = ['wn._core._find_helper', 'Wordnet.words/senses/synsets', 'wn._queries.find_entries',
      'find_senses', 'find_synsets (form conditions)', 'wn._add._insert_forms (normalized_form)',
      'wn._util.normalize_form', 'wn.morphy.Morphy.__call__']
OBLIGATIONS = [
    Ob('search', 'h_search', parts=len(CONFIGS), quick=dict(timeout=280),
       thorough=dict(timeout=1500),
       canary=[('always-normalize', 0), ('per-group-fallback', 1), ('synsets-precedence', 3),
               ('pos-ignored', 1), ('norm-stored-always', 0)],
       functions=_F, stubs=['vf.sqlmodel'],
       symbolic='lemma and further form of word 1, lemma and pos of word 2, the query (all by '
                'index into ' + str(POOL) + '), the pos filter, the two forms a custom lemmatizer '
                'proposes (one per pos)',
       bounds='2 words; one partition per configuration normalizer x search_all_forms x '
              'lemmatizer in none / custom (proposes one form for n and one for v) / Morphy '
              '(uninitialized)',
       outside='Unicode behaviour of normalize_form beyond the pool; more than two words; '
               'Morphy initialized (C17)'),
]
