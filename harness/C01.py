"""C01 - the query API reports exactly the content of every added lexicon.

The real wn.add_lexical_resource runs on a document whose skeleton (ids, nesting) is
concrete and whose payload is symbolic; every SQL statement it issues is interpreted by
vf.sqlmodel; then the public API is walked and compared with an independent projection of
the document.
"""
from vf import rt
from vf.chx import Ob

CANARIES = {
    'reader-text-assigned': ('wn.lmf', "            parent['text'] += data", "            parent['text'] = data"),
    'swap-email-license': ('wn._add', "         lexicon['email'],\n         lexicon['license'],",
                           "         lexicon['license'],\n         lexicon['email'],"),
    'lemma-script-dropped': ('wn._add', "entry['lemma'].get('script'), 0)", "None, 0)"),
    'adjposition-const': ('wn._add', "s['adjposition'])\n            for e in entries",
                          "'a')\n            for e in entries"),
    'first-definition': ('wn._add', "             definition['text'],\n             definition.get('language'),",
                         "             definition['text'].strip(),\n             definition.get('language'),"),
    'member-rank': ('wn._add', "              for i, s in enumerate(ss.get('members', []))}",
                    "              for i, s in enumerate(sorted(ss.get('members', [])))}"),
    'batch-drop-tail': ('wn._add', "    while len(batch):\n        yield batch",
                        "    while len(batch) == BATCH_SIZE:\n        yield batch"),
    'ext-tag-form': ('wn._add', "                rank = -1 if _is_external(form) else i\n                for tag in",
                     "                rank = i\n                for tag in"),
    'count-column': ('wn._queries', "        SELECT count, rowid\n          FROM counts",
                     "        SELECT rowid, rowid\n          FROM counts"),
}
rt.setup(canaries=CANARIES)

import wn  # noqa: E402
import wn._add as A  # noqa: E402
import wn._queries as Q  # noqa: E402
from vf import docs  # noqa: E402

TECHNIQUE = 'CrossHair symbolic execution of the real add_lexical_resource + query API over an ' \
            'executable model of the SQL they issue; payload strings/flags symbolic; observation ' \
            'compared with an independent projection of the document'
ASSUMPTIONS = [
    'SQLite is replaced by vf.sqlmodel, which interprets the SQL text produced by the real code '
    '(validated against real sqlite3 by the setup self-test and by replaying every '
    'counterexample on a real database)',
    'normalize_form is stubbed by the identity while adding (its Unicode behaviour is C code; '
    'the normalized_form column is the subject of C09)',
    'written forms and counts are concrete at API level (Form(str)/Count(int) constructors '
    'force a concrete value); the raw-column obligation covers them symbolically',
    'JSON (de)serialisation of metadata by the sqlite3 adapter is modelled as a structural copy '
    '(a stored / fetched metadata dict is a fresh object with the same content); the JSON text '
    'itself is outside the model',
]

STYLES = ['1.0', '1.1']
MAXS = 2 if not rt.THOROUGH else 3


def _style():
    return STYLES[rt.part(2)[0] % 2]


def _roundtrip(sym, absent=(), style=None):
    style = style or _style()
    p = docs.P(sym, absent)
    lex = docs.lexicon_rich(p, style=style)
    rt.DB()
    rt.stub_normalizer()
    A.BATCH_SIZE = 2
    rt.quiet_add(docs.resource([lex], style))
    obs = docs.observe_lexicon(wn, 'L:1')
    proj = docs.project_lexicon(lex)
    if not rt.SYM:
        d = docs.first_difference(proj, obs)
        if d:
            rt.log('difference (expected vs API): ' + d)
    return obs == proj


def h_lexicon(label: str, language: str, email: str, license: str, url: str, citation: str,
              logo: str, title: str, has_url: bool, has_citation: bool, has_meta: bool) -> bool:
    """
    pre: len(label) <= MAXS and len(language) <= MAXS and len(email) <= MAXS
    pre: len(license) <= MAXS and len(url) <= MAXS and len(citation) <= MAXS
    pre: len(logo) <= MAXS and len(title) <= MAXS
    post: _
    """
    sym = dict(label=label, language=language, email=email, license=license, url=url,
               citation=citation, logo=logo, lex_meta_title=title, has_url=has_url,
               has_citation=has_citation, has_logo=has_citation, has_lex_meta=has_meta)
    return rt.verdict(_roundtrip(sym))


def h_forms(script1: str, tag1: str, tagcat1: str, fscript1: str, ftag1: str, ftagcat2: str,
            pron1: str, variety: str, audio: str, phonemic: bool, has_script: bool,
            has_tags: bool) -> bool:
    """
    pre: len(script1) <= MAXS and len(tag1) <= MAXS and len(tagcat1) <= MAXS
    pre: len(fscript1) <= MAXS and len(ftag1) <= MAXS and len(ftagcat2) <= MAXS
    pre: len(pron1) <= MAXS and len(variety) <= MAXS and len(audio) <= MAXS
    post: _
    """
    sym = dict(script1=script1, tag1=tag1, tagcat1=tagcat1, fscript1=fscript1, ftag1=ftag1,
               ftagcat2=ftagcat2, pron1=pron1, pron_variety=variety, pron_audio=audio,
               pron_phonemic_v=phonemic, has_script1=has_script, has_fscript1=has_script,
               has_lemma_tag=has_tags, has_form_tag=has_tags, has_pron_notation=has_script)
    return rt.verdict(_roundtrip(sym))


def h_senses(sx1: str, sx1_lang: str, sx2: str, adjposition: str, srel_type: str,
             srel_dc: str, s1_src: str, lexicalized: bool, has: bool) -> bool:
    """
    pre: len(sx1) <= MAXS and len(sx1_lang) <= MAXS and len(sx2) <= MAXS
    pre: len(adjposition) <= MAXS and 1 <= len(srel_type) <= MAXS
    pre: len(srel_dc) <= MAXS and len(s1_src) <= MAXS
    post: _
    """
    sym = dict(sx1=sx1, sx1_lang=sx1_lang, sx2=sx2, adjposition=adjposition,
               srel_type=srel_type, srel_meta_type=srel_dc,
               s1_meta_source=s1_src, s1_lexicalized_v=lexicalized, has_s1_ex=has,
               has_sx1_lang=has, has_adjposition=has, has_s1_meta=has,
               has_srel_meta=has, has_s1_lexicalized=has)
    return rt.verdict(_roundtrip(sym))


def h_synsets(ili1: str, sspos1: str, def1: str, def2: str, ilidef2: str,
              ssx1: str, lexfile1: str, ssr_type: str, lexicalized: bool, has: bool) -> bool:
    """
    pre: len(ili1) <= MAXS and len(sspos1) <= MAXS and len(def1) <= MAXS
    pre: len(def2) <= MAXS and len(ilidef2) <= MAXS and len(ssx1) <= MAXS
    pre: len(lexfile1) <= MAXS and 1 <= len(ssr_type) <= MAXS
    post: _
    """
    sym = dict(ili1=ili1, sspos1=sspos1, def1=def1, def2=def2,
               ilidef2=ilidef2, ssx1=ssx1, lexfile1=lexfile1, ssr_type=ssr_type,
               ss1_lexicalized_v=lexicalized, has_ss1_defs=has,
               has_ss2_ilidef=has, has_ss1_ilidef=has,
               has_ss1_lexicalized=has, has_def1_source=has)
    return rt.verdict(_roundtrip(sym, absent=()))


def h_presence(b1: bool, b2: bool, b3: bool, b4: bool, b5: bool, b6: bool) -> bool:
    """
    post: _
    """
    # presence bits of optional children / attributes, two groups of six (by partition)
    i = rt.part(4)[0] // 2
    if i == 0:
        sym = dict(has_frames=b1, has_frame_id2=b2, has_frames_e2=b2, has_members=b3, has_requires=b4,
                   has_requires_url=b5, has_s1_count=b6, has_count1_meta=b1)
    else:
        sym = dict(has_s1_rel=b1, has_ss1_rel=b2, has_ss1_ex=b3, has_lemma_pron=b4,
                   has_fid1=b5, has_e1_meta=b6, has_ss1_meta=b6, has_lexfile1=b3)
    return rt.verdict(_roundtrip(sym))


def h_raw_columns(w1: str, f1: str, fid1: str, count1: int, lemma_pos: str) -> bool:
    """
    pre: 1 <= len(w1) <= 3 and 1 <= len(f1) <= 3 and 1 <= len(fid1) <= 3 and len(lemma_pos) <= 2
    pre: w1 != f1
    post: _
    """
    # the columns that Form()/Count() would force concrete come back unaltered, in document
    # order, from the query layer
    p = docs.P(dict(w1=w1, f1=f1, fid1=fid1, count1=count1, pos1=lemma_pos))
    lex = docs.lexicon_rich(p, style='1.1')
    rt.DB()
    rt.stub_normalizer()
    rt.quiet_add(docs.resource([lex], '1.1'))
    rows = list(Q.find_entries(lexicon_rowids=(1,)))
    ok = len(rows) == 2
    if ok:
        _id, pos, forms, lexid, rowid = rows[0]
        ok = (_id == 'e1' and pos == lemma_pos and lexid == 1 and len(forms) == 3
              and forms[0][0] == w1 and forms[0][1] is None
              and forms[1][0] == f1 and forms[1][1] == fid1)
    if ok:
        srow = [s for s in Q.find_senses(lexicon_rowids=(1,)) if s[0] == 's1'][0]
        counts = Q.get_sense_counts(srow[4], (1,))
        ok = [c[0] for c in counts] == [count1, 5]
    return rt.verdict(ok)


def h_batch(n: int, b: int) -> bool:
    """
    pre: 0 <= n <= 7 and 1 <= b <= 4
    post: _
    """
    A.BATCH_SIZE = b
    items = []
    for i in range(8):
        if i < n:
            items.append(i)
    batches = list(A._batch(iter(items)))
    flat = [x for bt in batches for x in bt]
    ok = flat == items
    for bt in batches[:-1]:
        if len(bt) != b:
            ok = False
    if batches and not (1 <= len(batches[-1]) <= b):
        ok = False
    return rt.verdict(ok)


def h_two_lexicons(label_a: str, label_b: str, def_a: str, def_b: str, sx_a: str,
                   sx_b: str) -> bool:
    """
    pre: len(label_a) <= MAXS and len(label_b) <= MAXS and len(def_a) <= MAXS
    pre: len(def_b) <= MAXS and len(sx_a) <= MAXS and len(sx_b) <= MAXS
    post: _
    """
    # K4: two lexicons in one resource whose entities have the same ids; each is reported
    # with its own content
    pa = docs.P(dict(label=label_a, def1=def_a, sx1=sx_a))
    pb = docs.P(dict(label=label_b, def1=def_b, sx1=sx_b))
    la = docs.lexicon_rich(pa, lid='A', style='1.1')
    lb = docs.lexicon_rich(pb, lid='B', style='1.1')
    rt.DB()
    rt.stub_normalizer()
    A.BATCH_SIZE = 2
    rt.quiet_add(docs.resource([la, lb], '1.1'))
    ok = docs.observe_lexicon(wn, 'A:1') == docs.project_lexicon(la)
    ok = ok and docs.observe_lexicon(wn, 'B:1') == docs.project_lexicon(lb)
    return rt.verdict(ok)


def _tags(form):
    return [(t.tag, t.category) for t in form.tags()]


def h_extension(xtag1: str, xftag1: str, xsx1: str, xssx1: str, xsrel: str,
                has_a: bool, has_b: bool) -> bool:
    """
    pre: len(xtag1) <= MAXS and len(xftag1) <= MAXS and len(xsx1) <= MAXS
    pre: len(xssx1) <= MAXS and 1 <= len(xsrel) <= MAXS
    post: _
    """
    xssr = 'hyponym'
    # K3: base + extension using every documented extension pattern
    pb = docs.P()
    base = docs.lexicon_rich(pb, style='1.1')
    px = docs.P(dict(xxtag1=xtag1, xxftag1=xftag1, xxsx1=xsx1, xxssx1=xssx1,
                     xxsrel_type=xsrel, has_xxlemma_tag=has_a,
                     has_xxform_tag=has_a, has_xxs_ex=has_b, has_xxs_count=has_b,
                     has_xxss_ex=has_a, has_xxss_def=has_b))
    ext = docs.extension_rich(px)
    rt.DB()
    rt.stub_normalizer()
    A.BATCH_SIZE = 2
    rt.quiet_add(docs.resource([base], '1.1'))
    rt.quiet_add(docs.resource([ext], '1.1'))
    ok = True
    # the base alone is still reported exactly as its document says - except that tags and
    # pronunciations have no owner (finding C04-tags); that exception is excluded here only
    # while the finding is open
    w = wn.Wordnet('L:1 X:1', expand='')
    e1 = w.word('e1')
    forms = e1.forms()
    bl = base['entries'][0]['lemma']
    bf = base['entries'][0]['forms'][1]
    want_lt = [(t['text'], t['category']) for t in bl.get('tags', [])] + \
        ([(xtag1, 'xxtagcat1')] if has_a else [])
    want_ft = [(t['text'], t['category']) for t in bf.get('tags', [])] + \
        ([(xftag1, 'xxftagcat1')] if has_a else [])
    ok = ok and _tags(forms[0]) == want_lt and _tags(forms[2]) == want_ft
    ok = ok and _tags(forms[1]) == [('ftag1', 'ftagcat1'), ('ftag2', 'ftagcat2')]
    # the merged order of base senses and the senses an extension adds to a base entry is
    # not documented: the base's senses keep their order, the new one is present
    ids = [s.id for s in e1.senses()]
    ok = ok and sorted(ids) == ['s1', 's2', 'xs9'] and ids.index('s1') < ids.index('s2')
    s1 = w.sense('s1')
    ok = ok and s1.examples() == ['sx1', 'sx2'] + ([xsx1] if has_b else [])
    ok = ok and [int(c) for c in s1.counts()] == [3, 5] + ([7] if has_b else [])
    rel = [(r.name, t.id, r.lexicon().id) for r, t in s1.relation_map().items()]
    ok = ok and rel == [('antonym', 's2', 'L'), (xsrel, 'xs9', 'X')]
    ss1 = w.synset('ss1')
    ok = ok and ss1.examples() == ['ssx1'] + ([xssx1] if has_a else [])
    ok = ok and [(r.name, t.id, r.lexicon().id) for r, t in ss1.relation_map().items()] == \
        [('hypernym', 'ss2', 'L'), (xssr, 'xss9', 'X')]
    ok = ok and [s.id for s in w.synset('ss2').senses()] == ['s2', 'xs8']
    ok = ok and w.sense('xs8').word().id == 'xe8' and w.sense('xs9').word().id == 'e1'
    n9 = w.synset('xss9')
    ok = ok and [(r.name, t.id) for r, t in n9.relation_map().items()] == [('hypernym', 'ss1')]
    ok = ok and [x.id for x in w.words()] == ['e1', 'e2', 'xe8']
    ok = ok and [x.id for x in w.synsets()] == ['ss1', 'ss2', 'ss3', 'xss9']
    return rt.verdict(ok)


FILE_VERSIONS = ['1.0', '1.1', '1.2', '1.3']
FILE_TEXTS = ['t', 'two words', '<a & "b">', "it's \u00e9 \U0001f600"]


def h_from_file(kt: int, kd: int, has_a: bool, has_b: bool, split: bool) -> bool:
    """
    pre: 0 <= kt < 4 and 0 <= kd < 4
    pre: rt.THOROUGH or kd == (kt + 1) % 4
    post: _
    """
    # the document as a *file*: the real writer's output goes through the real reader handlers
    # (vf.lmfbridge; text may arrive in two chunks as expat delivers it) before it is added
    from vf import lmfbridge as B
    version = FILE_VERSIONS[rt.part(4)[0]]
    style = '1.0' if version == '1.0' else '1.1'
    text, text2 = FILE_TEXTS[0], FILE_TEXTS[0]
    for n in range(4):
        if kt == n:
            text = FILE_TEXTS[n]
        if kd == n:
            text2 = FILE_TEXTS[n]
    sym = dict(sx1=text, def1=text2, def2=text, ssx1=text2, ilidef2=text, tag1=text2, pron1=text,
               label=text2, citation=text, lex_meta_title=text2, sx1_meta_source=text,
               has_sx1_meta=has_a, has_ssx1_meta=has_a, has_def1_meta=has_a, has_lex_meta=has_a,
               has_citation=has_b, has_adjposition=has_b, has_ssx1_lang=has_b, has_members=has_b,
               has_s1_lexicalized=has_b, has_pron_phonemic=has_b, has_frame_id2=has_b)
    lex = docs.lexicon_rich(docs.P(sym), style=style)
    loaded, _trees = B.dump_to_events(docs.resource([lex], version), split_text=split)
    rt.DB()
    rt.stub_normalizer()
    A.BATCH_SIZE = 2
    rt.quiet_add(loaded)
    obs = docs.observe_lexicon(wn, 'L:1')
    proj = docs.project_lexicon(lex)
    if not rt.SYM:
        d = docs.first_difference(proj, obs)
        if d:
            rt.log('difference (expected vs API): ' + d)
    return rt.verdict(obs == proj)


_F = ['wn._add.add_lexical_resource', '_add_lexical_resource', '_precheck', '_update_lookup_tables',
      '_insert_lexicon', '_build_lexid_map', '_batch', '_insert_synsets', '_insert_entries',
      '_insert_forms', '_insert_pronunciations', '_insert_tags', '_insert_senses',
      '_insert_adjpositions', '_insert_counts', '_collect_frames', '_insert_syntactic_behaviours',
      '_insert_synset_relations', '_insert_sense_relations', '_insert_synset_definitions',
      '_insert_examples', 'wn._queries.find_*/get_* (SQL text interpreted by vf.sqlmodel)',
      'wn._core.Wordnet/Word/Form/Sense/Synset/Lexicon/ILI/Count/Tag/Pronunciation accessors']
_STUB = ['vf.sqlmodel for SQLite', 'normalize_form = identity', 'progress handler = None']
_B = (f'skeleton: 1 lexicon, 2 entries (1 extra form), 3 senses, 3 synsets, <= 2 of each child '
      f'kind; symbolic strings of length <= {MAXS} (any code point); BATCH_SIZE = 2; two '
      f'partitions: WN-LMF 1.0 style and 1.1+ style documents')
OBLIGATIONS = [
    Ob('lexicon-attributes', 'h_lexicon', parts=2, quick=dict(timeout=200),
       thorough=dict(timeout=900), canary='swap-email-license', functions=_F, stubs=_STUB,
       symbolic='label, language, email, license, url, citation, logo, dc:title; presence of '
                'url/citation/logo/metadata', bounds=_B),
    Ob('forms-tags-pronunciations', 'h_forms', parts=2, quick=dict(timeout=200),
       thorough=dict(timeout=900), canary='lemma-script-dropped', functions=_F, stubs=_STUB,
       symbolic='scripts, tag texts/categories, pronunciation text/variety/audio/phonemic; '
                'presence bits', bounds=_B),
    Ob('senses', 'h_senses', parts=2, quick=dict(timeout=200), thorough=dict(timeout=900),
       canary='adjposition-const', functions=_F, stubs=_STUB,
       symbolic='example texts/language, adjposition, sense relation type, dc:type, metadata '
                'value, lexicalized; one presence bit for all optional parts',
       bounds=_B),
    Ob('synsets', 'h_synsets', parts=2, quick=dict(timeout=250), thorough=dict(timeout=900),
       canary='first-definition', functions=_F, stubs=_STUB,
       symbolic="ILI (incl. '' and 'in'), pos, definition texts/language, ILI definition, "
                'example, lexfile, relation type, lexicalized; one presence bit', bounds=_B),
    Ob('presence', 'h_presence', parts=4, quick=dict(timeout=250), thorough=dict(timeout=900),
       canary=[('member-rank', 1)], functions=_F, stubs=_STUB,
       symbolic='12 presence bits of optional attributes / child groups (frames, frame ids, '
                'members, requires, counts, relations, examples, pronunciations, form id, metadata)',
       bounds=_B + '; 2 groups of 6 bits'),
    Ob('raw-columns', 'h_raw_columns', quick=dict(timeout=200), thorough=dict(timeout=900),
       canary='count-column', functions=_F[:20] + ['wn._queries.find_entries', 'find_senses',
                                                   'get_sense_counts'], stubs=_STUB,
       symbolic='lemma, second form, form id (strings of length 1-3), a count (any int), pos',
       bounds='same skeleton; raw rows of the query layer instead of Form()/Count() objects'),
    Ob('batching', 'h_batch', quick=dict(timeout=120), canary='batch-drop-tail',
       functions=['wn._add._batch'], symbolic='sequence length 0-7, batch size 1-4',
       bounds='all 32 combinations (lemma used by the other obligations, which run with '
              'BATCH_SIZE = 2)'),
    Ob('two-lexicons-same-ids', 'h_two_lexicons', quick=dict(timeout=250),
       thorough=dict(timeout=900), canary=None, functions=_F, stubs=_STUB,
       symbolic='label, a definition and an example of each lexicon',
       bounds='one resource with two lexicons whose entity ids are identical'),
    Ob('from-file', 'h_from_file', parts=4, quick=dict(timeout=250), thorough=dict(timeout=900),
       canary=[('reader-text-assigned', 1)],
       functions=['wn.lmf._make_parser handlers (start / char_data / end)', 'wn.lmf._validate*',
                  'wn.lmf._dump_lexicon and below'] + _F,
       stubs=_STUB + ['expat / ElementTree framing = vf.lmfbridge (text may arrive in two chunks)'],
       symbolic='texts of examples / definitions / ILI definition / tag / pronunciation / label / '
                'citation / metadata from ' + repr(FILE_TEXTS) + ' (two choices; quick tier: the second follows the first), '
                'two groups of presence bits, whether character data arrives in one or two chunks',
       bounds='rich skeleton written by the real writer in WN-LMF 1.0 / 1.1 / 1.2 / 1.3 '
              '(partition), read by the real reader, added, observed through the API'),
    Ob('extension', 'h_extension', quick=dict(timeout=300), thorough=dict(timeout=900),
       canary='ext-tag-form', functions=_F, stubs=_STUB,
       symbolic='tag on external lemma / external form, example, definition, synset example, '
                'relation types contributed by the extension; presence bits',
       bounds='base (rich skeleton) + one extension: new entry, new sense on external entry, '
              'new synset, relation/example/count on external sense and synset, tags on '
              'external lemma and id-carrying external form'),
]
