"""C11 - relation queries return exactly the declared relations; closures terminate.

Document-driven: a base lexicon and an extension with relation *slots* whose target, type,
dc:type and declaring lexicon are symbolic (parallel, duplicated, self-loop and non-standard
relations arise when the solver makes slots coincide); scope and type filter symbolic.
Graph level: closure() and relation_paths() on all digraphs on 3 nodes.
"""
from vf import rt
from vf.chx import Ob

CANARIES = {
    'owner-filter': ('wn._queries', "                 WHERE source_rowid IN ({_qs(source_rowids)})\n                   AND lexicon_rowid IN lexrowids",
                     "                 WHERE source_rowid IN ({_qs(source_rowids)})"),
    'subtype-ignored': [('wn._core', "            and self._lexicon == other._lexicon\n            and self.subtype == other.subtype",
                         "            and self._lexicon == other._lexicon"),
                        ('wn._core', "        datum = self.name, self.source_id, self.target_id, self._lexicon, self.subtype",
                         "        datum = self.name, self.source_id, self.target_id, self._lexicon")],
    'empty-filter': ('wn._queries', "    if relation_types and '*' not in relation_types:\n        constraint = f'WHERE type IN ({_qs(relation_types)})'\n        params.extend(relation_types)\n    params.extend(lexicon_rowids)\n    params.append(source_rowid)\n    query = f'''\n          WITH rt(rowid, type) AS\n               (SELECT rowid, type FROM relation_types {constraint}),\n               lexrowids(rowid) AS (VALUES {_vs(lexicon_rowids)})\n        SELECT DISTINCT rel.type, rel.lexicon, rel.metadata,\n                        rel.source_rowid,",
                     "    if '*' not in relation_types:\n        constraint = f'WHERE type IN ({_qs(relation_types)})'\n        params.extend(relation_types)\n    params.extend(lexicon_rowids)\n    params.append(source_rowid)\n    query = f'''\n          WITH rt(rowid, type) AS\n               (SELECT rowid, type FROM relation_types {constraint}),\n               lexrowids(rowid) AS (VALUES {_vs(lexicon_rowids)})\n        SELECT DISTINCT rel.type, rel.lexicon, rel.metadata,\n                        rel.source_rowid,"),
    'retry-loses-wordnet': ('wn._core', "    if not results and normalize:\n        results = [\n            cls(*data, _wordnet=w)  # type: ignore",
                            "    if not results and normalize:\n        results = [\n            cls(*data)  # type: ignore"),
    'closure-no-visited': ('wn._core', "            if relatable.id not in visited:\n                visited.add(relatable.id)",
                           "            if True:\n                visited.add(relatable.id)"),
    'self-loop-guard': ('wn._core', "            if target._id != self._id  # avoid self loops?\n", ""),
    'sense-vs-synset-split': ('wn._add', "                if target_id in sense_ids:\n                    s_s_rels.append",
                              "                if target_id in sense_ids and target_id not in synset_ids:\n                    s_s_rels.append"),
}
rt.setup(canaries=CANARIES)

import wn  # noqa: E402
from vf import docs  # noqa: E402
from vf import graph as G  # noqa: E402

TECHNIQUE = 'CrossHair symbolic execution of the real relation API over the SQL model with symbolic ' \
            'relation slots / scope / type filter; closure and relation_paths on symbolic digraphs'
ASSUMPTIONS = [
    'SQLite replaced by vf.sqlmodel (metadata dicts compared as values by DISTINCT)',
    'graph level: relation query stubbed by the adjacency matrix',
]

SYN = ['a', 'b', 'c']
SEN = ['s', 't', 'u']
NT = 4 if rt.THOROUGH else 2      # relation types per slot
ND = 3 if rt.THOROUGH else 2      # dc:type values per slot
NK = 3 if rt.THOROUGH else 2      # targets per slot
NF = 5 if rt.THOROUGH else 3      # type filters
SYN_TYPES = ['hypernym', 'also', 'zzz', 'holo_part']
SEN_TYPES = ['antonym', 'also', 'zzz']
DCS = [None, 'p', 'q']
SCOPES = ['L:1', 'L:1 X:1', None, 'X:1']
FILTERS = [(), ('hypernym', 'antonym'), ('also', 'zzz'), ('antonym', 'holo_part'), ('nope',)]


def _pick(options, k):
    for n in range(len(options)):
        if k == n:
            return options[n]
    return options[0]


def _rel(t, y, dc):
    return {'target': t, 'relType': y, 'meta': ({'type': dc} if dc else None)}


def _db(syn_slots, sen_slots):
    """syn_slots: [(by_ext, target, type, dc)] on synset a; sen_slots: same on sense s
    (target is a sense or a synset id)"""
    base = {'id': 'L', 'version': '1', 'label': 'l', 'language': 'en', 'email': 'e',
            'license': 'x', 'meta': None,
            'entries': [{'id': 'e1', 'meta': None,
                         'lemma': {'writtenForm': 'w', 'partOfSpeech': 'n'},
                         'senses': [{'id': 's', 'synset': 'a', 'meta': None,
                                     'relations': [_rel(t, y, d) for x, t, y, d in sen_slots if not x]},
                                    {'id': 't', 'synset': 'b', 'meta': None},
                                    {'id': 'u', 'synset': 'c', 'meta': None}]}],
            'synsets': [{'id': 'a', 'ili': '', 'partOfSpeech': 'n', 'meta': None,
                         'relations': [_rel(t, y, d) for x, t, y, d in syn_slots if not x]},
                        {'id': 'b', 'ili': '', 'partOfSpeech': 'n', 'meta': None},
                        {'id': 'c', 'ili': '', 'partOfSpeech': 'n', 'meta': None}]}
    ext = {'id': 'X', 'version': '1', 'label': 'x', 'language': 'en', 'email': 'e',
           'license': 'x', 'meta': None, 'extends': {'id': 'L', 'version': '1'},
           'entries': [{'external': True, 'id': 'e1',
                        'senses': [{'external': True, 'id': 's',
                                    'relations': [_rel(t, y, d) for x, t, y, d in sen_slots if x]},
                                   {'external': True, 'id': 't'}, {'external': True, 'id': 'u'}]}],
           'synsets': [{'external': True, 'id': 'a',
                        'relations': [_rel(t, y, d) for x, t, y, d in syn_slots if x]},
                       {'external': True, 'id': 'b'}, {'external': True, 'id': 'c'}]}
    rt.DB()
    rt.stub_normalizer()
    rt.quiet_add(docs.resource([base], '1.1'))
    rt.quiet_add(docs.resource([ext], '1.1'))


def _visible(slots, scope):
    """declared relations in scope, duplicates (equal in everything) collapsed, in order"""
    out = []
    for by_ext, t, y, d in slots:
        owner = 'X:1' if by_ext else 'L:1'
        if scope is not None and owner not in scope.split():
            continue
        if scope is not None and 'L:1' not in scope.split():
            continue                 # the source entity itself is not in scope
        item = (y, t, owner, d)
        if item not in out:
            out.append(item)
    return out


def _filtered(items, flt):
    if not flt or '*' in flt:
        return items
    return [i for i in items if i[0] in flt]


def h_synset_relations(k1: int, y1: int, d1: int, x2: bool, k2: int, y2: int, d2: int,
                       ksc: int, kf: int) -> bool:
    """
    pre: 0 <= k1 < NK and 0 <= y1 < NT and 0 <= d1 < ND and 0 <= k2 < NK and 0 <= y2 < NT and 0 <= d2 < ND
    pre: ksc == rt.part(8)[0] % 4 and x2 == (rt.part(8)[0] // 4 == 1) and 0 <= kf < NF
    post: _
    """
    # slot 1 targets a (self-loop), b or c; slot 2 targets b, c or a: b is shared, so the
    # slots can be parallel (same target, other type / dc:type) or duplicates
    slots = [(False, _pick(['b', 'a', 'c'], k1), _pick(SYN_TYPES, y1), _pick(DCS, d1)),
             (x2, _pick(['b', 'c', 'a'], k2), _pick(SYN_TYPES, y2), _pick(DCS, d2))]
    _db(slots, [])
    scope, flt = _pick(SCOPES, ksc), _pick(FILTERS, kf)
    w = wn.Wordnet(scope) if scope else wn.Wordnet()
    if scope == 'X:1':
        # the extension alone: the base synset is not in scope at all
        ok = [x.id for x in w.synsets()] == []
        return rt.verdict(ok)
    a = w.synset('a')
    want = _filtered(_visible(slots, scope), flt)
    # relation_map: one entry per distinct (name, target, lexicon, dc:type)
    rm = [(r.name, t.id, r.lexicon().specifier(), r.subtype, r.source_id, r.target_id,
           r.metadata().get('type')) for r, t in a.relation_map().items()]
    allv = _visible(slots, scope)
    ok = sorted(rm, key=repr) == sorted(((y, t, o, d, 'a', t, d) for y, t, o, d in allv), key=repr)
    # get_related / relations restricted to the requested types, no duplicates, in order
    rel = [t.id for t in a.get_related(*flt)]
    uniq = []
    for y, t, _o, _d in want:
        if t not in uniq:
            uniq.append(t)
    ok = ok and sorted(rel) == sorted(uniq) and len(rel) == len(uniq)
    rels = a.relations(*flt)
    names = []
    for y, _t, _o, _d in want:
        if y not in names:
            names.append(y)
    ok = ok and sorted(rels) == sorted(names)
    for n in names:
        tg = []
        for y, t, _o, _d in want:
            if y == n and t not in tg:
                tg.append(t)
        ok = ok and sorted(x.id for x in rels[n]) == sorted(tg) and len(rels[n]) == len(tg)
    # shortcut methods
    ok = ok and sorted(x.id for x in a.hypernyms()) == \
        sorted({t for y, t, _o, _d in allv if y in ('hypernym', 'instance_hypernym')})
    ok = ok and sorted(x.id for x in a.holonyms()) == \
        sorted({t for y, t, _o, _d in allv if y == 'holo_part'})
    ok = ok and a.meronyms() == [] and a.hyponyms() == []
    return rt.verdict(ok)


def h_sense_relations(k1: int, y1: int, d1: int, x2: bool, k2: int, y2: int, syn2: bool,
                      ksc: int, kf: int) -> bool:
    """
    pre: 0 <= k1 < NK and 0 <= y1 < NT - 1 and 0 <= d1 < ND and 0 <= k2 < NK and 0 <= y2 < NT - 1
    pre: ksc == rt.part(6)[0] % 3 and x2 == (rt.part(6)[0] // 3 == 1) and 0 <= kf < NF
    post: _
    """
    # slot 1: sense s -> sense; slot 2: sense s -> sense or synset (syn2), declared by the
    # base or by the extension (x2)
    t2 = _pick(['b', 'c', 'a'], k2) if syn2 else _pick(['t', 'u', 's'], k2)
    slots = [(False, _pick(['t', 's', 'u'], k1), _pick(SEN_TYPES, y1), _pick(DCS, d1)),
             (x2, t2, _pick(SEN_TYPES, y2), None)]
    _db([], slots)
    scope, flt = _pick(SCOPES, ksc), _pick(FILTERS, kf)
    w = wn.Wordnet(scope) if scope else wn.Wordnet()
    s = w.sense('s')
    vis = _visible(slots, scope)
    to_sense = [i for i in vis if i[1] in SEN]
    to_synset = [i for i in vis if i[1] in SYN]
    rm = [(r.name, t.id, r.lexicon().specifier(), r.subtype) for r, t in s.relation_map().items()]
    ok = sorted(rm, key=repr) == sorted(to_sense, key=repr)
    want = _filtered(to_sense, flt)
    uniq = []
    for _y, t, _o, _d in want:
        if t not in uniq:
            uniq.append(t)
    got = [t.id for t in s.get_related(*flt)]
    ok = ok and sorted(got) == sorted(uniq) and len(got) == len(uniq)
    rels = s.relations(*flt)
    ok = ok and sorted(rels) == sorted({y for y, _t, _o, _d in want})
    wsyn = _filtered(to_synset, flt)
    usyn = []
    for _y, t, _o, _d in wsyn:
        if t not in usyn:
            usyn.append(t)
    gs = [t.id for t in s.get_related_synsets(*flt)]
    ok = ok and sorted(gs) == sorted(usyn) and len(gs) == len(usyn)
    return rt.verdict(ok)


def _lower(s):
    return s.lower()


def h_lookup(k1: int, y1: int, k2: int, y2: int, ksc: int, way: int) -> bool:
    """
    pre: 0 <= k1 < 3 and 0 <= y1 < 2 and 0 <= k2 < 3 and 0 <= y2 < 2 and 0 <= ksc < 3
    pre: way == rt.part(5)[0]
    post: _
    """
    # the relations of an entity do not depend on how it was looked up: by id, by its form as
    # stored, or by a form that only matches after normalisation (second pass of the lookup)
    slots = [(False, _pick(['b', 'a', 'c'], k1), _pick(SYN_TYPES, y1), None),
             (True, _pick(['b', 'c', 'a'], k2), _pick(SYN_TYPES, y2), None)]
    sen = [(False, 't', 'antonym', None), (True, 'u', 'also', None)]
    _db(slots, sen)
    scope = _pick(['L:1', 'L:1 X:1', None], ksc)
    w = wn.Wordnet(scope, normalizer=_lower) if scope else wn.Wordnet(normalizer=_lower)

    def syn_t(x):
        return [sorted((r.name, t.id, r.lexicon().specifier()) for r, t in x.relation_map().items()),
                sorted(t.id for t in x.get_related()), sorted(t.id for t in x.closure('hypernym', 'also'))]

    def sen_t(x):
        return [sorted((r.name, t.id, r.lexicon().specifier()) for r, t in x.relation_map().items()),
                sorted(t.id for t in x.get_related())]
    ref_a, ref_s = syn_t(w.synset('a')), sen_t(w.sense('s'))
    if way == 0:
        got_a = syn_t([x for x in w.synsets('w') if x.id == 'a'][0])
        got_s = sen_t([x for x in w.senses('w') if x.id == 's'][0])
    elif way == 1:
        got_a = syn_t([x for x in w.synsets('W') if x.id == 'a'][0])
        got_s = sen_t([x for x in w.senses('W') if x.id == 's'][0])
    elif way == 2:
        got_s = sen_t([x for x in w.words('W')[0].senses() if x.id == 's'][0])
        got_a = syn_t([x for x in w.words('W')[0].synsets() if x.id == 'a'][0])
    elif way == 3:
        got_a = syn_t([x for x in w.senses('W') if x.id == 's'][0].synset())
        got_s = sen_t([x for x in w.synsets('W') if x.id == 'a'][0].senses()[0])
    else:
        got_a = syn_t([x for x in w.synsets('W', pos='n') if x.id == 'a'][0])
        got_s = sen_t([x for x in w.senses('W', pos='n') if x.id == 's'][0])
    return rt.verdict(got_a == ref_a and got_s == ref_s)


def h_closure(b0: bool, b1: bool, b2: bool, b3: bool, b4: bool, b5: bool, b6: bool, b7: bool,
              b8: bool) -> bool:
    """
    post: _
    """
    x = rt.part(3)[0]
    adj = [[b0, b1, b2], [b3, b4, b5], [b6, b7, b8]]
    g = G.Graph(3, adj, budget=300)
    try:
        reach = []
        todo = list(g.hypers(x))
        while todo:
            i = todo.pop(0)
            if i not in reach:
                reach.append(i)
                todo.extend(g.hypers(i))
        got = [g.idx(s) for s in g.ss(x).closure('hypernym', 'instance_hypernym')]
        ok = sorted(got) == sorted(reach) and len(got) == len(reach)
        # relation_paths: only simple paths, none through the start; with an end: exactly the
        # simple paths ending there
        for end in range(3):
            paths = [[g.idx(s) for s in p]
                     for p in g.ss(x).relation_paths('hypernym', end=g.ss(end))]
            want = [p for p in _simple_paths(g, x) if p[-1] == end]
            ok = ok and sorted(paths) == sorted(want)
            for p in paths:
                ok = ok and len(set(p)) == len(p) and x not in p
    except G.Budget:
        return False
    return rt.verdict(ok)


def _simple_paths(g, x):
    """every simple path from x (x excluded, no node repeated)"""
    out = []

    def rec(node, path):
        for j in g.hypers(node):
            if j != x and j not in path:
                out.append(path + [j])
                rec(j, path + [j])
    rec(x, [])
    return out


_F = ['wn._core.Synset.relations/get_related/relation_map/_iter_relations/_iter_local_relations',
      'Sense.relations/get_related/relation_map/get_related_synsets/_iter_sense_relations/'
      '_iter_sense_synset_relations', 'Relation.__eq__/__hash__/subtype/lexicon/metadata',
      'hypernyms/hyponyms/holonyms/meronyms', 'wn._queries.get_synset_relations',
      'get_sense_relations', 'get_sense_synset_relations',
      'wn._add._insert_synset_relations/_insert_sense_relations/_update_lookup_tables']
OBLIGATIONS = [
    Ob('lookup-independence', 'h_lookup', parts=5, quick=dict(timeout=250), thorough=dict(timeout=600),
       canary=[('retry-loses-wordnet', 1)],
       functions=['wn._core._find_helper (both passes)', 'Wordnet.words/senses/synsets/synset/sense',
                  'Word.senses/synsets', 'Sense.synset', 'Synset.senses'] + [],
       stubs=['vf.sqlmodel', 'Wordnet(normalizer=str.lower); normalize_form = identity while adding'],
       symbolic='targets and types of a base relation and of a relation the extension adds to the '
                'same synset; scope (base only, base + extension, default mode); the way the entity '
                'is reached (partition): form as stored, form that needs normalisation, via the word, '
                'via the sense / synset, with a pos',
       bounds='relation_map / get_related / closure of synset a and sense s equal those of the '
              'entity fetched by id in the same Wordnet'),
    Ob('synset-relations', 'h_synset_relations', parts=8, quick=dict(timeout=250),
       thorough=dict(timeout=1200), canary=[('owner-filter', 4), ('subtype-ignored', 1)],
       functions=_F, stubs=['vf.sqlmodel', 'normalize_form = identity'],
       symbolic='two relation slots on synset a: target (a, b, c: self-loops possible), type '
                + str(SYN_TYPES) + ', dc:type ' + str(DCS) + ', second slot declared by the base '
                'or the extension; scope ' + str(SCOPES) + ' (one partition each); type filter '
                + str(FILTERS),
       bounds='base with 3 synsets / 3 senses + extension; slots coincide => parallel / '
              'duplicated relations; quick tier: 2 targets, 2 types, 2 dc:types, 3 filters per '
              'slot; thorough: 3, 4, 3, 5'),
    Ob('sense-relations', 'h_sense_relations', parts=6, quick=dict(timeout=250),
       thorough=dict(timeout=1200), canary=[('empty-filter', 0)],
       functions=_F, stubs=['vf.sqlmodel', 'normalize_form = identity'],
       symbolic='two slots on sense s: sense- or synset-targeted, type ' + str(SEN_TYPES)
                + ', dc:type, declaring lexicon; scope; type filter',
       bounds='same skeleton'),
    Ob('closure-and-paths', 'h_closure', parts=3, quick=dict(timeout=250),
       thorough=dict(timeout=900), canary=[('closure-no-visited', 0), ('self-loop-guard', 0)],
       functions=['wn._core._Relatable.closure', '_Relatable.relation_paths', 'Synset.get_related'],
       stubs=['relation source: adjacency matrix'],
       symbolic='9 adjacency bits', bounds='all labelled digraphs on 3 nodes (self-loops, cycles); '
       'call budget 300 for termination'),
]
