"""C04 - queries stay inside the selected lexicons and ignore unrelated ones.

(a) containment and (b) non-interference on a universe of related lexicons (document
driven; Wordnet arguments and the lexicon that is added/removed outside the selection are
symbolic), (c) a per-statement frame condition on the SQL of every scoped query function
with symbolic row owners (table-symbolic).
"""
from vf import rt
from vf.chx import Ob

CANARIES = {
    'relation-owner-filter': ('wn._queries', "                 WHERE source_rowid IN ({_qs(source_rowids)})\n                   AND lexicon_rowid IN lexrowids",
                              "                 WHERE source_rowid IN ({_qs(source_rowids)})"),
    'sense-relation-target-filter': ('wn._queries', "            ON s.rowid = rel.target_rowid\n           AND s.lexicon_rowid IN lexrowids",
                                     "            ON s.rowid = rel.target_rowid"),
    'examples-unscoped': ('wn._queries', "         WHERE {prefix}_rowid = ?\n           AND lexicon_rowid IN ({_qs(lexicon_rowids)})",
                          "         WHERE {prefix}_rowid = ? OR lexicon_rowid NOT IN ({_qs(lexicon_rowids)}) AND 1 = 0"),
    'expand-bare-id': ('wn._core', "                expand = ' '.join(\n                    format_lexicon_specifier(id, ver)\n                    for id, ver, _id in deps\n                    if _id is not None\n                )",
                       "                expand = ' '.join(\n                    id\n                    for id, ver, _id in deps\n                    if _id is not None\n                )"),
    'counts-unscoped': ('wn._queries', "         WHERE sense_rowid = ?\n           AND lexicon_rowid IN ({_qs(lexicon_rowids)})\n    '''\n    rows: list[_Count]",
                        "         WHERE sense_rowid = ?\n           AND (lexicon_rowid IN ({_qs(lexicon_rowids)}) OR 1 = 1)\n    '''\n    rows: list[_Count]"),
}
rt.setup(canaries=CANARIES)

import warnings  # noqa: E402
import wn  # noqa: E402
import wn._queries as Q  # noqa: E402
import wn._add as A  # noqa: E402
import wn._ili as I  # noqa: E402
from wn.util import ProgressHandler  # noqa: E402
from vf import docs  # noqa: E402

TECHNIQUE = 'CrossHair symbolic execution of the real query/navigation API over the SQL model: ' \
            'containment and 2-safety non-interference with symbolic Wordnet arguments; frame ' \
            'condition per SQL statement with symbolic row owners'
ASSUMPTIONS = [
    'SQLite replaced by vf.sqlmodel; table-level rows satisfy the schema constraints',
    'tags and pronunciations are excluded from the transcripts while finding C04-tags is open '
    '(the tables have no owner column)',
]

SELECTIONS = ['A:1', 'A:1 X:1', 'B:1', 'A:1 B:1', 'C:1', None, 'D:1', 'X:1']
EXPANDS = [None, '', 'C:1', 'B:1', 'P:1'] + (['C:1 P:1', 'U:1', '*'] if rt.THOROUGH else [])
OUTSIDERS = ['B', 'C', 'X', 'U', 'P2'] + (['D', 'P'] if rt.THOROUGH else [])
NE, NO = len(EXPANDS), len(OUTSIDERS)


def _pick(options, k):
    for n in range(len(options)):
        if k == n:
            return options[n]
    return options[0]


def _lexicons():
    p = docs.P()
    a = docs.lexicon_small(p, 'A', tag='', ili='i1', ili2='i2', two=True)
    b = docs.lexicon_small(p, 'B', tag='', ili='i1', ili2='i2', two=True)       # same ids/forms/ILIs
    c = docs.lexicon_small(p, 'C', tag='c', ili='i1', ili2='i3', language='de', two=True)
    c['synsets'].append({'id': 'css3', 'ili': 'i2', 'partOfSpeech': 'n', 'meta': None})
    c['synsets'][0]['relations'].append({'target': 'css3', 'relType': 'similar', 'meta': None})
    # i3 has no synset in A: from A it is reached as an *INFERRED* synset, and left again
    c['synsets'][1]['relations'] = [{'target': 'css3', 'relType': 'hypernym', 'meta': None}]
    u = docs.lexicon_small(p, 'U', tag='u', ili='i1')
    x = docs.extension_small(p, 'X', base=('A', '1'), tag='x', btag='')
    # the extension also relates two *base* synsets and adds example/count to a base sense
    x['synsets'][0]['relations'] = [{'target': 'ss2', 'relType': 'also', 'meta': None}]
    x['entries'][0]['senses'][0]['counts'] = [{'value': 9, 'meta': None}]
    # a relation owned by X from its own new sense to a sense of the base
    x['entries'][1]['senses'][0]['relations'] = [{'target': 's1', 'relType': 'also', 'meta': None}]
    pr = docs.lexicon_small(p, 'P', ver='1', tag='p', ili='i2', ili2='i1')
    pr2 = docs.lexicon_small(p, 'P', ver='2', tag='q', ili='i2', ili2='i9')
    pr2['synsets'].append({'id': 'qss3', 'ili': 'i3', 'partOfSpeech': 'n', 'meta': None,
                           'relations': [{'target': 'qss2', 'relType': 'hypernym', 'meta': None}]})
    d = docs.lexicon_small(p, 'D', tag='d', ili='i1', ili2='i2',
                           requires=[{'id': 'P', 'version': '1'}])
    return {'A': a, 'B': b, 'C': c, 'U': u, 'X': x, 'P': pr, 'P2': pr2, 'D': d}


ORDER = ['A', 'B', 'C', 'U', 'P', 'D', 'X', 'ili', 'P2']


class _FakeFile:
    def __init__(self, lines):
        self._lines = lines

    def __enter__(self):
        return iter(self._lines)

    def __exit__(self, *a):
        return False


class _FakePath:
    def __init__(self, name):
        self.name = str(name)

    def expanduser(self):
        return self

    def open(self, *a, **k):
        return _FakeFile(['ili\tstatus\tdefinition\n', 'i1\tactive\tone\n', 'i2\tactive\ttwo\n',
                          'i9\tactive\tnine\n'])

    def __str__(self):
        return self.name


def _build(skip=None):
    lexs = _lexicons()
    rt.DB(fresh=skip is None)
    rt.stub_normalizer()
    for k in ORDER:
        if k == 'ili':
            # an ILI index loaded between the lexicons: its definitions belong to no lexicon
            I.Path = _FakePath
            A._add_ili(_FakePath('ili.tsv'), ProgressHandler(message=''))
        elif k != skip:
            rt.quiet_add(docs.resource([lexs[k]], '1.1'))
    return lexs


def _lex(e):
    return e.lexicon().id


def _battery(w, with_tags):
    """transcript of a walk over the public API (2 navigation steps) + the lexicon of every
    entity met"""
    out = []
    met = []
    for word in w.words():
        met.append(_lex(word))
        forms = [[str(f), f.id, f.script] + ([[(t.tag, t.category) for t in f.tags()]]
                                               if with_tags else []) for f in word.forms()]
        row = ['word', word.id, _lex(word), forms]
        for s in word.senses():
            met.append(_lex(s))
            row.append(['sense', s.id, _lex(s), s.examples(), [int(c) for c in s.counts()]])
            for rel, t in s.relation_map().items():
                met.append(_lex(t))
                met.append(rel.lexicon().id)
                row.append(['srel', rel.name, t.id, _lex(t), rel.lexicon().id])
            for t in s.get_related_synsets():
                met.append(_lex(t))
                row.append(['ssrel', t.id, _lex(t)])
            try:
                ss = s.synset()
                met.append(_lex(ss))
                row.append(['synset', ss.id, _lex(ss)])
            except wn.Error:
                row.append(['synset', None])
        out.append(row)
    for ss in w.synsets():
        met.append(_lex(ss))
        row = ['synset', ss.id, _lex(ss), ss.definition(), ss.examples(),
               [(s.id, _lex(s)) for s in ss.senses()]]
        for s in ss.senses():
            met.append(_lex(s))
        for rel, t in ss.relation_map().items():
            if t.id != '*INFERRED*':
                met.append(_lex(t))
            row.append(['rel', rel.name, t.id, t._ili, t.lexicon().id])
            # second step, also from synsets that exist only through the expand lexicons
            for t2 in t.get_related():
                if t2.id != '*INFERRED*':
                    met.append(_lex(t2))
                row.append(['rel2', t2.id, t2._ili, t2.lexicon().id])
        row.append([[x.id for x in path] for path in ss.hypernym_paths()])
        out.append(row)
    out.append(sorted((i.id or '', i.status, i.definition() or '') for i in w.ilis()))
    return out, met


def _family(lid):
    return {'A': ['A', 'X'], 'X': ['X', 'A'], 'B': ['B'], 'C': ['C'], 'U': ['U'], 'P': ['P'],
            'D': ['D']}[lid]


def _make(sel, exp):
    with warnings.catch_warnings():
        warnings.simplefilter('ignore')
        kw = {} if exp is None else {'expand': exp}
        return wn.Wordnet(sel, **kw) if sel else wn.Wordnet(**kw)


def h_contained(ksel: int, kexp: int) -> bool:
    """
    pre: ksel == rt.part(8)[0] and 0 <= kexp < NE
    post: _
    """
    _build()
    sel, exp = _pick(SELECTIONS, ksel), _pick(EXPANDS, kexp)
    w = _make(sel, exp)
    tags = not rt.finding_open('C04-tags')
    out, met = _battery(w, tags)
    ok = True
    if sel is not None:
        scope = [t.split(':')[0] for t in sel.split()]
        ok = all(m in scope for m in met) and sorted(lx.id for lx in w.lexicons()) == sorted(scope)
    else:
        # default mode: every step stays in the family of the entity it started from; the
        # battery records steps as consecutive pairs only implicitly, so check the entities
        # reached from A-family words/synsets
        for row in out[:-1]:
            start = row[2]
            fam = _family(start) if start in ('A', 'X', 'B', 'C', 'U', 'P', 'D') else [start]
            for item in row[3:]:
                if isinstance(item, list) and item and item[0] in ('sense', 'synset') \
                        and len(item) > 2:
                    ok = ok and item[2] in fam
                if isinstance(item, list) and item and item[0] == 'srel':
                    ok = ok and item[3] in fam and item[4] in fam
    return rt.verdict(ok)


def h_noninterference(ksel: int, kexp: int, kout: int) -> bool:
    """
    pre: ksel == rt.part(8)[0] and 0 <= kexp < NE and 0 <= kout < NO
    post: _
    """
    sel, exp = _pick(SELECTIONS, ksel), _pick(EXPANDS, kexp)
    out_lex = _pick(OUTSIDERS, kout)
    if sel is None or exp == '*':
        return rt.verdict(True)          # the unrestricted mode / expand='*' sees every lexicon by definition
    scope = [t.split(':')[0] for t in sel.split()]
    # the absent lexicon must be outside the selection and outside its expand set
    if exp is None:
        expand_set = ['P'] if 'D' in scope else []     # declared dependency P:1 (P2 = P:2 is not it)
    elif exp:
        expand_set = [t.split(':')[0] for t in exp.split()]
    else:
        expand_set = []
    if out_lex in scope or out_lex in expand_set:
        return rt.verdict(True)
    tags = not rt.finding_open('C04-tags')
    _build()
    full, _m = _battery(_make(sel, exp), tags)
    _build(skip=out_lex)
    less, _m2 = _battery(_make(sel, exp), tags)
    return rt.verdict(full == less)


def h_tag_leak(k: int) -> bool:
    """
    pre: 0 <= k < 1
    post: _
    """
    # witness of finding C04-tags: a tag that the unselected extension X adds to a lemma of A
    # is reported by Wordnet('A:1')
    _build()
    a = _battery(_make('A:1', ''), True)[0]
    _build(skip='X')
    b = _battery(_make('A:1', ''), True)[0]
    return rt.verdict(a == b)


# -- (c) frame condition per statement ------------------------------------------------------

def _lexrow(i, lid):
    return [i, lid, 'label', 'en', 'e', 'lic', '1', None, None, None, None, False]


def _fill(db, o):
    """three lexicons; every other table gets two rows whose owner is symbolic (o[...] in 1..3);
    structural references are concrete and valid"""
    db.insert_rows('lexicons', [_lexrow(1, 'L1'), _lexrow(2, 'L2'), _lexrow(3, 'L3')])
    db.insert_rows('relation_types', [[1, 'hypernym'], [2, 'also']])
    db.insert_rows('ilis', [[1, 'i1', 1, None, None]])
    db.insert_rows('entries', [[1, 'e1', o[0], 'n', None], [2, 'e2', o[1], 'n', None]])
    db.insert_rows('forms', [[1, None, o[0], 1, 'f', None, None, 0], [2, None, o[1], 2, 'f', None, None, 0]])
    db.insert_rows('synsets', [[1, 'ss1', o[2], 1, 'n', True, None, None],
                               [2, 'ss2', o[3], 1, 'n', True, None, None]])
    db.insert_rows('senses', [[1, 's1', o[4], 1, 0, 1, 0, True, None],
                              [2, 's2', o[5], 2, 0, 1, 1, True, None]])
    db.insert_rows('synset_relations', [[1, o[6], 1, 2, 1, None], [2, o[7], 2, 1, 2, None]])
    db.insert_rows('sense_relations', [[1, o[6], 1, 2, 2, None], [2, o[7], 2, 1, 2, None]])
    db.insert_rows('sense_synset_relations', [[1, o[6], 1, 2, 2, None], [2, o[7], 2, 1, 1, None]])
    db.insert_rows('definitions', [[1, o[6], 1, 'd1', None, None, None], [2, o[7], 1, 'd2', None, None, None]])
    db.insert_rows('synset_examples', [[1, o[6], 1, 'x1', None, None], [2, o[7], 1, 'x2', None, None]])
    db.insert_rows('sense_examples', [[1, o[6], 1, 'x1', None, None], [2, o[7], 1, 'x2', None, None]])
    db.insert_rows('counts', [[1, o[6], 1, 3, None], [2, o[7], 1, 4, None]])
    db.insert_rows('syntactic_behaviours', [[1, 'f1', o[6], 'fr1'], [2, 'f2', o[7], 'fr2']])
    db.insert_rows('syntactic_behaviour_senses', [[1, 1], [2, 1]])


QUERIES = ['find_entries', 'find_senses', 'find_synsets', 'get_entry_senses', 'get_synset_members',
           'get_synset_relations', 'get_sense_relations', 'get_sense_synset_relations',
           'get_definitions', 'get_examples', 'get_sense_counts', 'get_syntactic_behaviours',
           'get_synsets_for_ilis', 'find_ilis']


def h_frame(o0: int, o1: int, o2: int, o3: int, o4: int, o5: int, o6: int, o7: int,
            two: bool) -> bool:
    """
    pre: 1 <= o0 <= 3 and 1 <= o1 <= 3 and 1 <= o2 <= 3 and 1 <= o3 <= 3
    pre: 1 <= o4 <= 3 and 1 <= o5 <= 3 and 1 <= o6 <= 3 and 1 <= o7 <= 3
    post: _
    """
    q = QUERIES[rt.part(len(QUERIES))[0]]
    o = [o0, o1, o2, o3, o4, o5, o6, o7]
    db = rt.DB()
    _fill(db, o)
    lex = (1, 2) if two else (1,)
    ok = True

    def inside(x):
        return x in lex
    if q == 'find_entries':
        rows = list(Q.find_entries(lexicon_rowids=lex))
        ok = all(inside(r[3]) for r in rows) and \
            sorted(r[4] for r in rows) == sorted(i + 1 for i in (0, 1) if inside(o[i]))
    elif q == 'find_senses':
        rows = list(Q.find_senses(lexicon_rowids=lex))
        ok = all(inside(r[3]) for r in rows) and \
            sorted(r[4] for r in rows) == sorted(i - 3 for i in (4, 5) if inside(o[i]))
    elif q == 'find_synsets':
        rows = list(Q.find_synsets(lexicon_rowids=lex))
        ok = all(inside(r[3]) for r in rows) and \
            sorted(r[4] for r in rows) == sorted(i - 1 for i in (2, 3) if inside(o[i]))
    elif q == 'get_entry_senses':
        rows = list(Q.get_entry_senses(1, lex))
        ok = [r[4] for r in rows] == [1 for _ in (0,) if inside(o[4])]
    elif q == 'get_synset_members':
        rows = list(Q.get_synset_members(1, lex))
        ok = [r[4] for r in rows] == [i - 3 for i in (4, 5) if inside(o[i])]
    elif q == 'get_synset_relations':
        rows = list(Q.get_synset_relations({1, 2} if not rt.SYM else rt.mkset([1, 2]), ('*',), lex))
        want = []
        if inside(o[6]) and inside(o[3]):
            want.append(('hypernym', 1, 2))
        if inside(o[7]) and inside(o[2]):
            want.append(('also', 2, 1))
        ok = sorted((r[0], r[3], r[8]) for r in rows) == sorted(want)
    elif q == 'get_sense_relations':
        rows = list(Q.get_sense_relations(1, ('*',), lex)) + list(Q.get_sense_relations(2, (), lex))
        want = []
        if inside(o[6]) and inside(o[5]):
            want.append(('also', 2))
        if inside(o[7]) and inside(o[4]):
            want.append(('also', 1))
        ok = sorted((r[0], r[7]) for r in rows) == sorted(want)
    elif q == 'get_sense_synset_relations':
        rows = list(Q.get_sense_synset_relations(1, ('*',), lex)) + \
            list(Q.get_sense_synset_relations(2, (), lex))
        want = []
        if inside(o[6]) and inside(o[3]):
            want.append(('also', 1, 2))
        if inside(o[7]) and inside(o[2]):
            want.append(('hypernym', 2, 1))
        ok = sorted((r[0], r[3], r[8]) for r in rows) == sorted(want)
    elif q == 'get_definitions':
        ok = [r[0] for r in Q.get_definitions(1, lex)] == \
            [t for t, i in (('d1', 6), ('d2', 7)) if inside(o[i])]
    elif q == 'get_examples':
        ok = [r[0] for r in Q.get_examples(1, 'synsets', lex)] == \
            [t for t, i in (('x1', 6), ('x2', 7)) if inside(o[i])]
        ok = ok and [r[0] for r in Q.get_examples(1, 'senses', lex)] == \
            [t for t, i in (('x1', 6), ('x2', 7)) if inside(o[i])]
    elif q == 'get_sense_counts':
        ok = [r[0] for r in Q.get_sense_counts(1, lex)] == \
            [t for t, i in ((3, 6), (4, 7)) if inside(o[i])]
    elif q == 'get_syntactic_behaviours':
        ok = sorted(Q.get_syntactic_behaviours(1, lex)) == \
            sorted(t for t, i in (('fr1', 6), ('fr2', 7)) if inside(o[i]))
    elif q == 'get_synsets_for_ilis':
        rows = list(Q.get_synsets_for_ilis(['i1'], lex))
        ok = sorted(r[4] for r in rows) == sorted(i - 1 for i in (2, 3) if inside(o[i]))
    elif q == 'find_ilis':
        rows = list(Q.find_ilis(lexicon_rowids=lex))
        ok = [r[0] for r in rows] == (['i1'] if (inside(o[2]) or inside(o[3])) else [])
    return rt.verdict(ok)


_FA = ['wn._core.Wordnet.__init__', '_LexiconElement._get_lexicon_ids', 'every query / navigation '
       'method walked by the battery (words, forms, senses, synsets, relation_map, '
       'get_related_synsets, hypernyms, hypernym_paths, definition, examples, counts, ilis)',
       'Synset._iter_expanded_relations', 'wn._queries.* (SQL interpreted by vf.sqlmodel)']
_U = ('universe: A, X extending A (incl. a relation between two base synsets), B with the same '
      'ids/forms/ILIs as A, C in another language sharing ILIs, U unrelated, D requiring P:1, two '
      'versions of P')
OBLIGATIONS = [
    Ob('containment', 'h_contained', parts=8, quick=dict(timeout=200), thorough=dict(timeout=900),
       canary=[('sense-relation-target-filter', 7)], functions=_FA,
       stubs=['vf.sqlmodel', 'normalize_form = identity'],
       symbolic='lexicon argument ' + str(SELECTIONS) + ', expand argument ' + str(EXPANDS),
       bounds=_U),
    Ob('non-interference', 'h_noninterference', parts=8, quick=dict(timeout=280),
       thorough=dict(timeout=900),
       canary=[('relation-owner-filter', 0), ('expand-bare-id', 6), ('counts-unscoped', 0)],
       functions=_FA, stubs=['vf.sqlmodel', 'normalize_form = identity'],
       symbolic='lexicon and expand arguments, which lexicon outside the selection and its expand '
                'set is absent (' + str(OUTSIDERS) + ')',
       bounds=_U + '; 2-safety: the transcript with and without the outsider must be equal'),
    Ob('frame-condition', 'h_frame', parts=len(QUERIES), quick=dict(timeout=200),
       thorough=dict(timeout=600), canary=[('examples-unscoped', 9)],
       functions=['wn._queries.' + q for q in QUERIES], stubs=['vf.sqlmodel'],
       symbolic='owner (1..3) of every entry, form, synset, sense, relation, definition, example, '
                'count and frame row; one or two selected lexicons',
       bounds='2 rows per table, 3 lexicons; one partition per query function'),
]
