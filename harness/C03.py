"""C03 - exporting a database and re-importing it preserves the lexicons.

Document-driven: the real add_lexical_resource stores a document with symbolic payload
(SQL model), the real _export_lexicon reads it back in every export version, the result goes
through the real LMF writer -> reader (vf.lmfbridge) and is added to an empty database; the
exported resource is compared with the document, the second database with the first.
"""
from vf import rt
from vf.chx import Ob

CANARIES = {
    'subcat-only-1.0': ('wn._export', "    sbmap: _SBMap = {}\n    for sbid, frame, sids in find_syntactic_behaviours(lexicon_rowids=lexids):\n        for sid in sids:\n            sbmap.setdefault(sid, []).append((sbid, frame))",
                        "    sbmap: _SBMap = {}\n    if version < (1, 1):\n        for sbid, frame, sids in find_syntactic_behaviours(lexicon_rowids=lexids):\n            for sid in sids:\n                sbmap.setdefault(sid, []).append((sbid, frame))"),
    'definition-language': ('wn._export', "        {'text': text,\n         'language': language,\n         'sourceSense': sense_id,", "        {'text': text,\n         'language': '',\n         'sourceSense': sense_id,"),
    'relation-owner': ('wn._queries', "                 WHERE source_rowid IN ({_qs(source_rowids)})\n                   AND lexicon_rowid IN lexrowids",
                       "                 WHERE source_rowid IN ({_qs(source_rowids)})"),
    'proposed-needs-definition': ('wn._export', "        if not ili and next(find_proposed_ilis(synset_rowid=rowid), None) is not None:",
                                  "        if ilidef and not ili:"),
    'precheck-off': ('wn._export', "        if all_ids.intersection(idset):", "        if all_ids.intersection(idset) and False:"),
    'lexicon-tag-gt': ('wn.lmf', "        f'{attr}={quoteattr(str(val))}' for attr, val in attrib.items()",
                       "        f'{attr}={quoteattr(str(val))}'.replace('&gt;', '>') for attr, val in attrib.items()"),
    'count-meta': ('wn._export', "         'meta': _export_metadata(id, 'counts')}", "         'meta': None}"),
}
rt.setup(canaries=CANARIES)

import io  # noqa: E402
import wn  # noqa: E402
import wn._add as A  # noqa: E402
from wn import lmf  # noqa: E402
from wn import _export as X  # noqa: E402
from vf import docs  # noqa: E402
from vf import lmfbridge as B  # noqa: E402

TECHNIQUE = 'CrossHair symbolic execution of the real add -> _export_lexicon -> LMF writer -> reader ' \
            '-> add chain over the SQL model and the event bridge, symbolic payload, one partition ' \
            'per export version and source style'
ASSUMPTIONS = [
    'SQLite replaced by vf.sqlmodel; expat/ElementTree framing by vf.lmfbridge',
    'the exported resource is compared with the document through the same projection that C01 '
    'uses for the API (it maps entry-level and lexicon-level frame representations to frames per '
    'sense) plus a field-wise comparison of what the API does not expose (all definitions with '
    'language and source sense, example languages, relation and count metadata, dependencies)',
    'sense-frame links of a document whose frames have no ids cannot be written as subcat in '
    '1.1+ (finding C03-frame-ids while open)',
]

VERSIONS = ['1.0', '1.1', '1.2', '1.3']
ATTRS = ['plain', 'a "q" <&> \'s', 'line\nbreak\ttab']


def _pick(options, k):
    for n in range(len(options)):
        if k == n:
            return options[n]
    return options[0]


def _doc_form(x):
    """the exporter writes '' / [] for absent optional parts; a document simply omits them"""
    if isinstance(x, dict):
        return {k: _doc_form(v) for k, v in x.items()
                if k in ('ili', 'meta', 'text') or not (v is None or v == '' or v == [])}
    if isinstance(x, list):
        return [_doc_form(v) for v in x]
    return x


def _extras(lex):
    """what the public API does not expose but an export must keep"""
    out = []
    for e in lex.get('entries', []):
        for s in e.get('senses', []):
            out.append(('sense', s['id'],
                        [(x['text'], x.get('language') or None, docs._md(x.get('meta')))
                         for x in s.get('examples', [])],
                        [(r['relType'], r['target'], docs._md(r.get('meta')))
                         for r in s.get('relations', [])],
                        [(c['value'], docs._md(c.get('meta'))) for c in s.get('counts', [])]))
    for ss in lex.get('synsets', []):
        out.append(('synset', ss['id'], ss['ili'],
                    [(d['text'], d.get('language') or None, d.get('sourceSense') or None,
                      docs._md(d.get('meta'))) for d in ss.get('definitions', [])],
                    [(x['text'], x.get('language') or None, docs._md(x.get('meta')))
                     for x in ss.get('examples', [])],
                    [(r['relType'], r['target'], docs._md(r.get('meta')))
                     for r in ss.get('relations', [])],
                    (ss['ili_definition']['text'], docs._md(ss['ili_definition'].get('meta')))
                    if ss.get('ili_definition') else None))
    out.append(('requires', [(d['id'], d['version'], d.get('url') or None)
                             for d in lex.get('requires', [])]))
    return out


def _gate(proj, extras, version, style):
    """drop what the export version cannot express"""
    proj = {k: [list(r) for r in v] if k != 'lexicon' else list(v) for k, v in proj.items()}
    if version == '1.0':
        proj['lexicon'][8] = None          # logo
        proj['lexicon'][10] = []           # requires
        for w in proj['words']:
            for f in w[2]:
                f[1] = None                # form ids
                f[4] = []                  # pronunciations
        for ss in proj['synsets']:
            ss[5] = None                   # lexfile
        extras = [e if e[0] != 'requires' else ('requires', []) for e in extras]
    return proj, extras


def _drop_frames(proj):
    for s in proj['senses']:
        s[5] = []
    return proj


def _member_order_free(proj, version):
    # 1.0 cannot express the members attribute: member order is then entry order
    if version == '1.0':
        for ss in proj['synsets']:
            ss[7] = sorted(ss[7])
    return proj


TEXTS = ['t', 'two words', '<a & "b">']


def h_export(kl: int, kt: int, has_a: bool, has_b: bool, with_ext: bool, has_c: bool) -> bool:
    """
    pre: kl == rt.part(24)[0] // 8 and 0 <= kt < 3
    pre: rt.THOROUGH or has_c == has_b
    post: _
    """
    part = rt.part(24)[0] % 8
    def1_lang = 'x-y' if has_b else 'en'
    dcv = 'a "&" b' if has_a else 'm'
    sx1 = _pick(TEXTS, kt)
    ilidef2 = _pick(TEXTS, (kt + 1) % 3)
    version, style = VERSIONS[part % 4], ('1.0' if part // 4 == 0 else '1.1')
    vinfo = tuple(int(x) for x in version.split('.'))
    sym = dict(label=_pick(ATTRS, kl), citation=_pick(ATTRS, kl), sx1=sx1, def1_lang=def1_lang,
               ilidef2=ilidef2, ssr_meta_type=dcv, srel_meta_type=dcv, count1_meta_source=dcv,
               sx1_meta_source=dcv, def1_meta_source=dcv, lex_meta_title=dcv,
               has_sx1_meta=has_a, has_ssr_meta=has_a, has_count1_meta=has_a,
               has_def1_lang=has_a, has_def1_source=has_a, has_ss2_ilidef=has_b,
               has_sx1_lang=has_c, has_frame_id2=has_c, has_members=has_c, has_requires_url=has_c,
               has_ss1_ilidef=False)
    p = docs.P(sym)
    doc = docs.lexicon_rich(p, style=style)
    db1 = rt.DB()
    rt.stub_normalizer()
    A.BATCH_SIZE = 2
    if with_ext:
        # the lexicon that L declares as a dependency is installed, with a url of its own: the
        # export must keep the url (or its absence) that L's <Requires> declared
        prov = docs.lexicon_small(docs.P(), 'R', ver='9', tag='r', ili='i8')
        prov['url'] = 'http://provider.example/own'
        rt.quiet_add(docs.resource([prov], '1.1'))
    rt.quiet_add(docs.resource([doc], '1.1' if style == '1.1' else '1.0'))
    if with_ext:
        # an installed extension that also relates two base synsets must not leak into the export
        ext = docs.extension_rich(docs.P())
        ext['synsets'][0]['relations'] = ext['synsets'][0].get('relations', []) + \
            [{'target': 'ss3', 'relType': 'also', 'meta': None}]
        ext['synsets'].append({'external': True, 'id': 'ss3'})
        if style == '1.0':
            ext['entries'][0]['forms'] = []       # 1.0 forms have no ids to refer to
        rt.quiet_add(docs.resource([ext], '1.1'))
    lexobj = wn.lexicons(lexicon='L:1')[0]
    exported = X._export_lexicon(lexobj, vinfo)
    obs1 = docs.observe_lexicon(wn, 'L:1')
    # (1) the exported resource says what the document says
    want_proj, want_x = _gate(docs.project_lexicon(doc), _extras(doc), version, style)
    exp_doc = _doc_form(exported)
    got_proj = docs.project_lexicon(exp_doc)
    got_x = _extras(exp_doc)
    if version == '1.0':
        got_proj, got_x = _gate(got_proj, got_x, version, style)
    frames_lost = style == '1.0' and version != '1.0' and rt.finding_open('C03-frame-ids')
    if frames_lost:
        want_proj, got_proj = _drop_frames(want_proj), _drop_frames(got_proj)
    want_proj, got_proj = _member_order_free(want_proj, version), _member_order_free(got_proj, version)
    if with_ext and rt.finding_open('C04-tags'):
        # the extension's tags on base forms have no owner and are exported with the base
        want_proj, got_proj = _strip_tags(want_proj), _strip_tags(got_proj)
    ok = got_proj == want_proj and got_x == want_x
    if not rt.SYM and not ok:
        rt.log('export differs: ' + str(docs.first_difference(want_proj, got_proj)
                                         or docs.first_difference(want_x, got_x)))
    # (2) through the real writer and reader, then into an empty database
    loaded, _trees = B.dump_to_events(docs.resource([exported], version), split_text=True)
    rt.DB(fresh=False)
    rt.stub_normalizer()
    rt.quiet_add(loaded)
    obs2 = docs.observe_lexicon(wn, 'L:1')
    o1, o2 = obs1, obs2
    if with_ext:
        # the first database also holds the extension's tags (finding C04-tags): compare the
        # base content without tags
        o1 = _strip_tags(obs1)
        o2 = _strip_tags(obs2)
    o1, _x = _gate(o1, [], version, style)
    o2, _x = _gate(o2, [], version, style)
    if frames_lost:
        o1, o2 = _drop_frames(o1), _drop_frames(o2)
    o1, o2 = _member_order_free(o1, version), _member_order_free(o2, version)
    ok2 = o1 == o2
    if not rt.SYM and not ok2:
        rt.log('re-import differs: ' + str(docs.first_difference(o1, o2)))
    return rt.verdict(ok and ok2)


def _strip_tags(obs):
    out = {k: [list(r) for r in v] if k != 'lexicon' else list(v) for k, v in obs.items()}
    for w in out['words']:
        w[2] = [[f[0], f[1], f[2], [], f[4]] for f in w[2]]
    return out


def h_precheck(same: bool) -> bool:
    """
    post: _
    """
    # exporting several lexicons whose entity ids clash is refused
    rt.DB()
    rt.stub_normalizer()
    p = docs.P()
    a = docs.lexicon_small(p, 'A', tag='')
    b = docs.lexicon_small(p, 'B', tag='' if same else 'b')
    rt.quiet_add(docs.resource([a, b], '1.1'))
    raised = False
    try:
        X._precheck(wn.lexicons())
    except wn.Error:
        raised = True
    return rt.verdict(raised == same)


def h_frame_ids(k: int) -> bool:
    """
    pre: 0 <= k < 1
    post: _
    """
    # witness of finding C03-frame-ids: a 1.0-style document (frames without ids) exported as
    # 1.1 loses its sense-frame links
    doc = docs.lexicon_rich(docs.P(), style='1.0')
    rt.DB()
    rt.stub_normalizer()
    rt.quiet_add(docs.resource([doc], '1.0'))
    exported = X._export_lexicon(wn.lexicons(lexicon='L:1')[0], (1, 1))
    want = docs.project_lexicon(doc)['senses']
    got = docs.project_lexicon(_doc_form(exported))['senses']
    return rt.verdict([s[5] for s in got] == [s[5] for s in want])


class _FakePath:
    FILES = {}

    def __init__(self, name):
        self.name = str(name)

    def expanduser(self):
        return self

    def is_file(self):
        return self.name in _FakePath.FILES

    def open(self, mode='rb', **kw):
        return io.BytesIO(_FakePath.FILES[self.name])

    def __str__(self):
        return self.name

    def __fspath__(self):
        return self.name


def _fake_open(path, mode='rb', **kw):
    return io.BytesIO(_FakePath.FILES[str(path)])


SCAN_ATTRS = ['plain', 'A&B <c>', 'a > b', "q'\"z", 'tab\tid="no"']


def h_scan_export(k1: int, k2: int, two: bool) -> bool:
    """
    pre: 0 <= k1 < 5 and 0 <= k2 < 5
    post: _
    """
    # wn.add(file) decides what to add from lmf.scan_lexicons(): the scan of an exported file
    # must name the exported lexicons (text of the hand-written start tags = real writer output)
    lmf.Path = _FakePath
    lmf.open = _fake_open
    version = VERSIONS[rt.part(4)[0]]
    vinfo = tuple(int(x) for x in version.split('.'))
    a, b = _pick(SCAN_ATTRS, k1), _pick(SCAN_ATTRS, k2)
    doc = docs.lexicon_small(docs.P(), 'L', tag='')
    doc.update(label=a, email=b, license=a, url=b, citation=a)
    rt.DB()
    rt.stub_normalizer()
    rt.quiet_add(docs.resource([doc], '1.1'))
    want = [{'id': 'L', 'version': '1', 'label': a, 'extends': None}]
    specs = ['L:1']
    if two:
        # several lexicons per export (the property covers non-extension lexicons only)
        other = docs.lexicon_small(docs.P(), 'S', ver='2', tag='s')
        other.update(label=b, email=a, license=b)
        rt.quiet_add(docs.resource([other], '1.1'))
        want.append({'id': 'S', 'version': '2', 'label': b, 'extends': None})
        specs.append('S:2')
    chunks = [lmf._XMLDECL.decode() + '\n', lmf._DOCTYPE.format(schema=lmf._SCHEMAS[version]) + '\n',
              '<LexicalResource xmlns:dc="x">\n']
    for spec in specs:
        exported = X._export_lexicon(wn.lexicons(lexicon=spec)[0], vinfo)
        B._SINK[:] = []
        lmf._dump_lexicon({**exported, 'entries': [], 'synsets': [], 'frames': []}, B._Out(), vinfo)
        chunks.extend(item for kind, item in list(B._SINK) if kind == 'text')
    chunks.append('</LexicalResource>\n')
    _FakePath.FILES = {'doc.xml': ''.join(chunks).encode('utf-8')}
    got = lmf.scan_lexicons('doc.xml')
    return rt.verdict(got == want)


_F = ['wn._export._export_lexicon', '_export_lexical_entries', '_export_senses',
      '_export_sense_relations', '_export_examples', '_export_counts', '_export_synsets',
      '_export_definitions', '_export_ili_definition', '_export_synset_relations',
      '_export_syntactic_behaviours_1_0', '_export_syntactic_behaviours_1_1', '_export_requires',
      '_export_tags', '_export_pronunciations', '_export_metadata', '_precheck',
      'wn._queries.* behind them', 'wn.lmf writer and reader (as C02)',
      'wn._add.add_lexical_resource']
OBLIGATIONS = [
    Ob('export-reimport', 'h_export', parts=24, twin_parts=[0, 9, 23], quick=dict(timeout=250),
       thorough=dict(timeout=1200),
       canary=[('subcat-only-1.0', 5), ('definition-language', 4), ('relation-owner', 5),
               ('proposed-needs-definition', 1), ('count-meta', 6)],
       functions=_F, stubs=['vf.sqlmodel', 'vf.lmfbridge', 'normalize_form = identity'],
       symbolic='label / citation from ' + repr(ATTRS) + ', example text and proposed-ILI definition '
                'from ' + repr(TEXTS) + ', definition language and metadata value (2 values each), two groups of '
                'presence bits (metadata, languages, source sense, proposed ILI without definition, '
                'second frame id, members, dependency url; a third independent group in the thorough '
                'tier), whether an extension is installed',
       bounds='rich skeleton; partitions: export version 1.0-1.3 x source style (1.0: entry-level '
              'frames / 1.1: lexicon-level frames with subcat)'),
    Ob('scan-of-export', 'h_scan_export', parts=4, quick=dict(timeout=200), thorough=dict(timeout=600),
       canary=[('lexicon-tag-gt', 1)],
       functions=['wn._export._export_lexicon', 'wn.lmf._dump_lexicon (start tag)', '_dump_dependency',
                  'wn.lmf.scan_lexicons', '_unescape_attr'],
       stubs=['vf.sqlmodel', 'fake file'],
       symbolic='label / license / citation and email / url from ' + repr(SCAN_ATTRS)
                + ', whether a second lexicon is exported as well',
       bounds='the scan that wn.add(file) relies on names exactly the exported lexicons (id, '
              'version, label, base), export versions 1.0-1.3'),
    Ob('unique-ids-precheck', 'h_precheck', quick=dict(timeout=120), canary=[('precheck-off', 0)],
       functions=['wn._export._precheck'], stubs=['vf.sqlmodel'],
       symbolic='whether the two lexicons reuse ids', bounds='two small lexicons'),
]
