"""C20 - invalid WN-LMF is rejected as a whole; scans agree with full loads.

(a) header: _read_header / is_lmf on a fake file whose two header lines are assembled from
symbolic choices of documented variations; (b) element table: the real handler closures are
driven with an event sequence whose element names are symbolic indexes into all names of all
versions plus an unknown one; (c) required attributes: _validate on elements with one
attribute removed at a symbolic position; (d) scan_lexicons on text produced by the real
writer vs. the reference parse; (e) add() of a file that load() rejects issues no DML.
"""
from vf import rt
from vf.chx import Ob

CANARIES = {
    'unicode-error-escapes': ('wn.lmf', "        except (LMFError, UnicodeDecodeError):\n            return False",
                              "        except LMFError:\n            return False"),
    'list-elems-not-versioned': ('wn.lmf', "        if name in LIST_ELEMS:\n            parent.setdefault(key, []).append(attrs)",
                                 "        if name in _LIST_ELEMS:\n            parent.setdefault(key, []).append(attrs)"),
    'repeat-allowed': ('wn.lmf', "        elif key is None or key in parent:\n            raise _unexpected(name, p)",
                       "        elif key is None:\n            raise _unexpected(name, p)"),
    'synset-ili-optional': ('wn.lmf', "            assert 'ili' in elem\n", ""),
    'scan-first-quote': ('wn.lmf', """b'''([^\\\\s=]+)\\\\s*=\\\\s*(?:"([^"]*)"|'([^']*)')'''""",
                         """b'''([^\\\\s=]+)\\\\s*=\\\\s*(?:["']([^"']*)["']|'([^']*)')'''"""),
    'scan-named-only': ('wn.lmf', """b'''([^\\\\s=]+)\\\\s*=\\\\s*(?:"([^"]*)"|'([^']*)')'''""",
                        """b'''\\\\b(id|version|label)\\\\s*=\\\\s*(?:"([^"]*)"|'([^']*)')'''"""),
    'scan-blocks': ('wn.lmf', "        for m in lex_re.finditer(fh.read()):", "        for m in (mm for blk in iter(lambda: fh.read(65536), b'') for mm in lex_re.finditer(blk)):"),
    'parse-not-final': ('wn.lmf', "            parser.ParseFile(fh)", "            parser.Parse(fh.read(), False)"),
    'doctype-any-version': ('wn.lmf', "    if doctype_decoded not in _DOCTYPES:\n        raise LMFError('invalid or missing DOCTYPE declaration')\n\n    return _DOCTYPES[doctype_decoded]",
                            "    if 'WN-LMF' not in doctype_decoded:\n        raise LMFError('invalid or missing DOCTYPE declaration')\n\n    return _DOCTYPES.get(doctype_decoded, '1.0')"),
    'load-after-precheck-write': ('wn._add', "    progress.flash(f'Reading {source!s}')\n    resource = lmf.load(source, progress_handler)",
                                  "    progress.flash(f'Reading {source!s}')\n    connect().execute('INSERT OR IGNORE INTO lexfiles VALUES (null, ?)', ('x',))\n    resource = lmf.load(source, progress_handler)"),
}
rt.setup(canaries=CANARIES)

import io  # noqa: E402
import wn  # noqa: E402
import wn._add as A  # noqa: E402
from wn import lmf  # noqa: E402
from wn import _util  # noqa: E402
from wn.util import ProgressHandler  # noqa: E402
from vf import docs  # noqa: E402
from vf import lmfbridge as B  # noqa: E402

TECHNIQUE = 'CrossHair symbolic execution of the real header check, expat handler closures, ' \
            '_validate*, scan_lexicons and _add_lmf with symbolic choice of header variation, element ' \
            'names, removed attribute and attribute values'
ASSUMPTIONS = [
    'files are fake file objects; expat itself (well-formedness, byte framing) is outside: the '
    'handlers are driven directly with element events',
    'the reference for "element exists in version" is the element list of the WN-LMF 1.0 / 1.1 '
    'DTDs written out in this harness',
]

DECL = b'<?xml version="1.0" encoding="UTF-8"?>'
DECLS = [DECL, DECL.replace(b'"', b"'"), DECL + b'  ', DECL + b'\r', b'', b'<?xml version="1.0"?>',
         DECL.replace(b'UTF-8', b'utf-8'), b' ' + DECL, b'<LexicalResource>',
         b'\xef\xbb\xbf' + DECL, b'\xff\xfe' + DECL]
DOCTYPE = '<!DOCTYPE LexicalResource SYSTEM "http://globalwordnet.github.io/schemas/WN-LMF-{}.dtd">'
DOCTYPES = [DOCTYPE.format(v).encode() for v in ('1.0', '1.1', '1.2', '1.3')] + [
    DOCTYPE.format('1.1').encode().replace(b'"', b"'"), DOCTYPE.format('1.3').encode() + b' \t',
    DOCTYPE.format('1.4').encode(), DOCTYPE.format('2.0').encode(), b'',
    b'<!DOCTYPE LexicalResource>', DOCTYPE.format('1.0').encode()[:-1] + b'\xff\xfe>',
    b'\xe9' + DOCTYPE.format('1.0').encode(),
    DOCTYPE.format('1.0').encode().replace(b'http://', b'https://')]


def _pick(options, k):
    for n in range(len(options)):
        if k == n:
            return options[n]
    return options[0]


class _FakePath:
    FILES = {}

    def __init__(self, name):
        self.name = str(name)

    def expanduser(self):
        return self

    def is_file(self):
        return self.name in _FakePath.FILES

    def open(self, mode='rb', **kw):
        return io.BytesIO(_FakePath.FILES[self.name])

    def __str__(self):
        return self.name

    def __fspath__(self):
        return self.name


def _fake_open(path, mode='rb', **kw):
    return io.BytesIO(_FakePath.FILES[str(path)])


def _install_fakes():
    lmf.Path = _FakePath
    lmf.open = _fake_open


def h_header(kd: int, kt: int, nl: int) -> bool:
    """
    pre: 0 <= kd < 11 and 0 <= kt < 13 and 0 <= nl < 2
    post: _
    """
    _install_fakes()
    eol = b'\n' if nl == 0 else b'\r\n'
    decl, doctype = _pick(DECLS, kd), _pick(DOCTYPES, kt)
    data = decl + eol + doctype + eol + b'<LexicalResource></LexicalResource>\n'
    _FakePath.FILES = {'f.xml': data}
    # independent reading of the documented header rule
    def norm(b):
        return b.rstrip().replace(b"'", b'"')
    lines = data.split(b'\n')
    want_version = None
    if norm(lines[0]) == DECL:
        try:
            second = norm(lines[1]).decode('utf-8')
        except UnicodeDecodeError:
            second = None
        for v in ('1.0', '1.1', '1.2', '1.3'):
            if second == DOCTYPE.format(v):
                want_version = v
    try:
        got = lmf._read_header(io.BytesIO(data))
        raised = False
    except (lmf.LMFError, UnicodeDecodeError):
        got, raised = None, True
    ok = (got == want_version) and (raised == (want_version is None))
    ok = ok and lmf.is_lmf('f.xml') == (want_version is not None)
    # load() rejects what is_lmf() rejects
    if want_version is None:
        rejected = False
        try:
            lmf.load('f.xml', progress_handler=None)
        except (wn.Error, UnicodeDecodeError):
            rejected = True
        ok = ok and rejected
    return rt.verdict(ok)


V10 = ['LexicalResource', 'Lexicon', 'LexicalEntry', 'Lemma', 'Form', 'Tag', 'Sense', 'SenseRelation',
       'Example', 'Count', 'SyntacticBehaviour', 'Synset', 'Definition', 'ILIDefinition',
       'SynsetRelation']
V11_ONLY = ['Requires', 'Extends', 'Pronunciation', 'LexiconExtension', 'ExternalLexicalEntry',
            'ExternalLemma', 'ExternalForm', 'ExternalSense', 'ExternalSynset']
SINGLE = ['Lemma', 'ILIDefinition', 'Extends', 'ExternalLemma']     # at most one per parent
NAMES = V10[2:] + V11_ONLY + ['Bogus']


def h_elements(kx: int, ky: int, ky2: int, kver: int) -> bool:
    """
    pre: 0 <= kx < len(NAMES) and 0 <= ky < len(NAMES) and 0 <= kver < (4 if rt.THOROUGH else 2)
    pre: 0 <= ky2 < (len(NAMES) if rt.THOROUGH else 4)
    pre: kx == rt.part(len(NAMES))[0]
    post: _
    """
    version = ['1.0', '1.1', '1.2', '1.3'][kver]
    x, y = _pick(NAMES, kx), _pick(NAMES, ky)
    if rt.THOROUGH:
        y2 = _pick(NAMES, ky2)
    else:
        # quick tier: the second child repeats the first, or is a fixed 1.0 / 1.1 / unknown name
        y2 = _pick([y, 'Example', 'ExternalLemma', 'Bogus'], ky2)
    valid = V10 + (V11_ONLY if version != '1.0' else [])
    br = B.Bridge(version)
    raised = False
    try:
        br.start('LexicalResource', {})
        br.start('Lexicon', {'id': 'a'})
        br.start(x, {})
        br.start(y, {})
        br.end(y)
        br.start(y2, {})
        br.end(y2)
        br.end(x)
        br.end('Lexicon')
        br.end('LexicalResource')
    except lmf.LMFError:
        raised = True
    lemmas = ('Lemma', 'ExternalLemma')      # both are stored under the key 'lemma'
    want = (x not in valid) or (y not in valid) or (y2 not in valid) or \
        (y == y2 and y in SINGLE) or (y in lemmas and y2 in lemmas)
    return rt.verdict(raised == want)


REQUIRED = [('lexicon', 'id'), ('lexicon', 'version'), ('lexicon', 'label'), ('lexicon', 'language'),
            ('lexicon', 'email'), ('lexicon', 'license'), ('entry', 'id'), ('lemma', 'writtenForm'),
            ('lemma', 'partOfSpeech'), ('form', 'writtenForm'), ('sense', 'id'), ('sense', 'synset'),
            ('synset', 'id'), ('synset', 'ili'), ('srel', 'target'), ('srel', 'relType'),
            ('ssrel', 'target'), ('ssrel', 'relType'), ('frame', 'subcategorizationFrame'),
            ('tag', 'category'), ('count', 'text'), ('requires', 'id'), ('requires', 'version'),
            ('none', '')]


def h_required(k: int) -> bool:
    """
    pre: 0 <= k < len(REQUIRED)
    post: _
    """
    # what the parser hands to _validate (attribute dicts as read; counts still have 'text')
    kind, attr = _pick(REQUIRED, k)
    lemma = {'writtenForm': 'w', 'partOfSpeech': 'n', 'tags': [{'category': 'c', 'text': 't'}]}
    sense = {'id': 's', 'synset': 'ss', 'relations': [{'target': 's', 'relType': 'also'}],
             'counts': [{'text': '3'}]}
    synset = {'id': 'ss', 'ili': '', 'relations': [{'target': 'ss', 'relType': 'also'}]}
    lex = {'id': 'L', 'version': '1', 'label': 'l', 'language': 'en', 'email': 'e', 'license': 'x',
           'meta': None, 'requires': [{'id': 'r', 'version': '1'}],
           'entries': [{'id': 'e', 'lemma': lemma, 'forms': [{'writtenForm': 'f'}],
                        'senses': [sense]}],
           'synsets': [synset], 'frames': [{'subcategorizationFrame': 'x'}]}
    target = {'lexicon': lex, 'entry': lex['entries'][0], 'lemma': lemma,
              'form': lex['entries'][0]['forms'][0], 'sense': sense, 'synset': synset,
              'srel': sense['relations'][0], 'ssrel': synset['relations'][0],
              'frame': lex['frames'][0], 'tag': lemma['tags'][0], 'count': sense['counts'][0],
              'requires': lex['requires'][0], 'none': {}}[kind]
    target.pop(attr, None)
    raised = False
    try:
        lmf._validate(lex)
    except Exception:  # noqa: BLE001 - any exception is a rejection
        raised = True
    return rt.verdict(raised == (kind != 'none'))


VALUES = ['a', "Bob's", 'say "hi"', 'A&B <c>', "mix ' and \"", '', 'tab\there']


OTHERS = ['e', 'x id="fake" y', "v version='9' w", 'label="no" id=\'z\'']


def h_scan(k_id: int, k_label: int, k_ver: int, ext: bool, two: bool, pad: int, k_other: int) -> bool:
    """
    pre: k_id == rt.part(5)[0] and 0 <= k_label < 7 and 0 <= k_ver < 5 and 0 <= pad <= 40
    pre: 0 <= k_other < 4
    pre: rt.THOROUGH or (pad in (0, 17) and k_ver < 2 and (k_other == 0 or k_label == 0))
    post: _
    """
    # the file text is what the real writer prints for the lexicon start tag and <Extends>
    _install_fakes()
    lid, label, ver = _pick(VALUES, k_id), _pick(VALUES, k_label), _pick(VALUES, k_ver)
    p = docs.P(dict(label=label))
    lexs = [docs.lexicon_small(p, lid or 'x', ver=ver or '0')]
    lexs[0]['label'] = label
    # attributes the scan does not report, whose values look like the ones it does report
    lexs[0]['email'] = lexs[0]['citation'] = _pick(OTHERS, k_other)
    if ext:
        e = docs.extension_small(docs.P(), 'X', base=(lid or 'x', ver or '0'))
        e['label'] = label
        lexs.append(e)
    if two:
        lexs.append(docs.lexicon_small(docs.P(), 'second', ver='2'))
    chunks = [lmf._XMLDECL.decode() + '\n', lmf._DOCTYPE.format(schema=lmf._SCHEMAS['1.1']) + '\n',
              '<LexicalResource xmlns:dc="x">\n']
    if pad:
        # a comment so large that the next start tag straddles the 64 KiB mark
        chunks.append('<!--' + 'p' * (65536 - 250 + pad) + '-->\n')
    want = []
    for lx in lexs:
        B._SINK[:] = []
        lmf._dump_lexicon({**lx, 'entries': [], 'synsets': []}, B._Out(), (1, 1))
        for kind, item in list(B._SINK):
            if kind != 'text':
                continue
            chunks.append(item)
            t = item.strip()
            if t.startswith('<Lexicon ') or t.startswith('<LexiconExtension '):
                name, attrs = B.parse_start_tag(t)
                want.append({'id': attrs['id'], 'version': attrs['version'],
                             'label': attrs.get('label'),
                             'extends': ({'id': lx['extends']['id'],
                                          'version': lx['extends']['version']}
                                         if lx.get('extends') else None)})
    chunks.append('</LexicalResource>\n')
    _FakePath.FILES = {'doc.xml': ''.join(chunks).encode('utf-8')}
    got = lmf.scan_lexicons('doc.xml')
    return rt.verdict(got == want)


def h_truncated(cut: int, kver: int, crlf: bool) -> bool:
    """
    pre: 0 <= cut <= 40 and 0 <= kver < 4
    post: _
    """
    # a document cut off after a solver-chosen line (between elements, inside the lexicon, or
    # just before the final end tag) is not well-formed: load() rejects it; the whole document
    # loads.  The bytes are concrete, so expat itself runs (natively) here.
    _install_fakes()
    version = ['1.0', '1.1', '1.2', '1.3'][kver]
    lex = docs.lexicon_small(docs.P(), 'T', tag='t', two=True)
    chunks = [lmf._XMLDECL.decode() + '\n', lmf._DOCTYPE.format(schema=lmf._SCHEMAS[version]) + '\n',
              '<LexicalResource xmlns:dc="' + lmf._DC_URIS[version] + '">\n']
    B._SINK[:] = []
    lmf._dump_lexicon(lex, B._Out(), lmf.version_info(version))
    for kind, item in list(B._SINK):
        if kind == 'text':
            chunks.append(item)
    chunks.append('</LexicalResource>\n')
    lines = ''.join(chunks).splitlines(keepends=True)
    whole = cut >= len(lines)
    text = ''.join(lines[:cut]) if not whole else ''.join(lines)
    if crlf:
        text = text.replace('\n', '\r\n')
    _FakePath.FILES = {'t.xml': text.encode('utf-8')}
    rejected = False
    try:
        res = lmf.load('t.xml', progress_handler=None)
    except (lmf.LMFError, UnicodeDecodeError):
        rejected = True
    if not whole:
        return rt.verdict(rejected)
    return rt.verdict(not rejected and [lx['id'] for lx in res['lexicons']] == ['T']
                      and len(res['lexicons'][0]['entries']) == 2)


def h_add_rejected(k: int, already: bool) -> bool:
    """
    pre: 0 <= k < 3
    post: _
    """
    # add() of a file whose load() fails: nothing is written (scan succeeds, load raises)
    db = rt.DB()
    rt.stub_normalizer()
    if already:
        rt.quiet_add(docs.resource([docs.lexicon_small(docs.P(), 'Q', tag='q')], '1.1'))
    before = db.dump()
    nlog = len(db.conn.log) if rt.SYM else 0
    saved = (lmf.scan_lexicons, lmf.load)
    lmf.scan_lexicons = lambda source: [{'id': 'N', 'version': '1', 'label': 'n', 'extends': None}]
    exc = [lmf.LMFError('unexpected element'), AssertionError('missing attribute'),
           lmf.LMFError('invalid or ill-formed XML')][k]

    def bad_load(source, progress_handler=None):
        raise exc
    lmf.load = bad_load
    raised = False
    try:
        A._add_lmf(_FakePath('doc.xml'), ProgressHandler(message=''), ProgressHandler)
    except (wn.Error, AssertionError):
        raised = True
    finally:
        lmf.scan_lexicons, lmf.load = saved
    ok = raised and db.dump() == before and not db.in_transaction()
    if rt.SYM:
        kinds = [x for x, _t in db.conn.log[nlog:]]
        ok = ok and 'insert' not in kinds and 'update' not in kinds and 'delete' not in kinds
    return rt.verdict(ok)


OBLIGATIONS = [
    Ob('header', 'h_header', quick=dict(timeout=250), thorough=dict(timeout=600),
       canary=[('unicode-error-escapes', 0), ('doctype-any-version', 0)],
       functions=['wn.lmf._read_header', 'is_lmf', 'load (header part via _quick_scan)',
                  'wn._util.is_xml'],
       stubs=['fake file object'],
       symbolic='XML declaration variant (9), DOCTYPE variant (13: four versions, single quotes, '
                'trailing white space, unsupported versions, missing, wrong form, non-UTF-8 bytes, '
                'https), line ending',
       bounds='234 header combinations: is_lmf() is true exactly when _read_header accepts, the '
              'version is the DOCTYPE\'s, load() rejects what is_lmf() rejects'),
    Ob('element-table', 'h_elements', parts=len(NAMES), quick=dict(timeout=200),
       thorough=dict(timeout=600), canary=[('list-elems-not-versioned', 15), ('repeat-allowed', 1)],
       twin_parts=[0, 5, 22], functions=['wn.lmf._make_parser start/end handlers', '_unexpected'],
       stubs=['events are fed directly to the handlers (vf.lmfbridge.Bridge)'],
       symbolic='three element names (a child of Lexicon and two children of it) by index into all '
                '23 element names + an unknown one; LMF version',
       bounds='depth 3; rejected iff a name does not exist in the declared version or a '
              'single-valued child is repeated'),
    Ob('required-attributes', 'h_required', quick=dict(timeout=120),
       canary=[('synset-ili-optional', 0)],
       functions=['wn.lmf._validate', '_validate_lexicon', '_validate_entries', '_validate_forms',
                  '_validate_senses', '_validate_synsets', '_validate_frames'],
       symbolic='which of 23 identifying attributes is missing (or none)',
       bounds='one lexicon with one entity of each kind'),
    Ob('scan-vs-load', 'h_scan', parts=5, quick=dict(timeout=250), thorough=dict(timeout=900),
       canary=[('scan-first-quote', 0), ('scan-named-only', 0), ('scan-blocks', 0)],
       functions=['wn.lmf.scan_lexicons', '_unescape_attr', '_dump_lexicon (start tag)',
                  '_dump_dependency'],
       stubs=['fake file; reference start-tag parser for what load() would read'],
       symbolic='id, version and label from ' + repr(VALUES) + ', an extension following the '
                'lexicon, a further lexicon, padding that moves a start tag across the 64 KiB mark, '
                'email / citation values that contain text looking like an id / version / label '
                'attribute ' + repr(OTHERS),
       bounds='documents of 1-3 lexicons written by the real writer (both quote styles, entities, '
              'tabs)'),
    Ob('truncated-document', 'h_truncated', quick=dict(timeout=200), thorough=dict(timeout=600),
       canary=[('parse-not-final', 0)],
       functions=['wn.lmf.load', '_quick_scan', '_read_header', '_make_parser', '_validate',
                  'wn.lmf._dump_lexicon (to produce the document)'],
       stubs=['fake file; expat runs natively on the concrete bytes'],
       symbolic='the line after which the document is cut (0-40, i.e. anywhere up to the whole '
                'document), LMF version, line ends',
       bounds='a two-entry lexicon written by the real writer; every proper prefix is rejected, '
              'the whole document loads'),
    Ob('add-rejects-without-writing', 'h_add_rejected', quick=dict(timeout=120),
       canary=[('load-after-precheck-write', 0)], functions=['wn._add._add_lmf', '_precheck'],
       stubs=['vf.sqlmodel (statement log)', 'lmf.scan_lexicons / lmf.load stubbed: the scan '
              'succeeds, the load raises LMFError / AssertionError'],
       symbolic='kind of rejection, whether another lexicon is installed',
       bounds='no INSERT/UPDATE/DELETE is issued and the tables are unchanged'),
]
