"""C14 - similarity metrics equal their formulas, are symmetric and bounded.

Structure level (this file, CrossHair): path and wup on hypernym graphs with symbolic
adjacency; part-of-speech compatibility of all six metrics with symbolic pos strings.
Formula level (vf/formulas.py, z3 direct): lch, res, jcn, lin translated from their AST.
"""
from vf import rt
from vf.chx import Ob

CANARIES = {
    'wup-via-shortest-path': ('wn.similarity',
                              "    i = len(synset1.shortest_path(lcs, simulate_root=simulate_root))\n"
                              "    j = len(synset2.shortest_path(lcs, simulate_root=simulate_root))\n"
                              "    k = lcs.max_depth() + 1\n    return (2*k) / (i + j + 2*k)",
                              "    ij = len(synset1.shortest_path(synset2, simulate_root=simulate_root))\n"
                              "    k = lcs.max_depth() + 1\n    return (2*k) / (ij + 2*k)"),
    'path-off-by-one': ('wn.similarity', "    return 1 / (distance + 1)", "    return 1 / (distance + 2) * 2 if distance else 1.0"),
    'sat-incompatible': ('wn.similarity', "    _pos2 = ADJ if pos2 == ADJ_SAT else pos2", "    _pos2 = pos2"),
    'unsorted-lcs': ('wn.taxonomy', "    for ss in sorted(common):", "    for ss in sorted(common, reverse=(synset._id > other._id)):"),
}
rt.setup(canaries=CANARIES)

import wn  # noqa: E402
from wn import similarity as S  # noqa: E402
from vf import graph as G  # noqa: E402

rt.native_float_in(S)

TECHNIQUE = 'CrossHair symbolic execution of wn.similarity.path/wup over symbolic adjacency ' \
            'matrices; z3 queries over formulas translated from the AST of lch/res/jcn/lin'
ASSUMPTIONS = [
    'graph level: relation query stubbed by the adjacency matrix (as C13)',
    'formula level: math.log is an uninterpreted strictly increasing function with log(1) = 0; '
    'reals stand in for floats; shortest-path length, lowest common hypernyms and information '
    'content enter as symbolic values constrained by what C13/C15 establish (distance symmetric '
    'and >= 0, IC >= 0, the set of lowest common hypernyms symmetric)',
]

N = 4
UPAIRS = [(a, b) for a in range(N) for b in range(a, N)]


def _adj(n, bits, reverse):
    adj = [[False] * n for _ in range(n)]
    k = 0
    for i in range(n):
        for j in range(i + 1, n):
            if reverse:
                adj[j][i] = bits[k]
            else:
                adj[i][j] = bits[k]
            k += 1
    return adj


def _close(x, y):
    return abs(x - y) <= 1e-12


def _pathdist(g, a, b, sim):
    """length of the shortest path between a and b over hypernym links through a common
    hypernym (the documented 'shortest path distance'); None if unconnected"""
    if a == b:
        return 0
    anc_a, anc_b = G.ancestors(g, a), G.ancestors(g, b)
    cands = [G.dist(g, a, c) + G.dist(g, b, c) for c in anc_a if c in anc_b]
    if sim:
        ra = min(len(p) for p in (G.chains(g, a) or [[]])) + 1
        rb = min(len(p) for p in (G.chains(g, b) or [[]])) + 1
        cands.append(ra + rb)
    return min(cands) if cands else None


def _oracle(g, a, b, sim):
    """(distance or None, [(i, j, k)] for every lowest common hypernym)"""
    anc_a, anc_b = G.ancestors(g, a), G.ancestors(g, b)
    common = [c for c in anc_a if c in anc_b]
    ra = min(len(p) for p in (G.chains(g, a) or [[]])) + 1
    rb = min(len(p) for p in (G.chains(g, b) or [[]])) + 1
    d = _pathdist(g, a, b, sim)
    lows = []
    if common:
        top = max(G.depth_max(g, c) for c in common)
        for c in common:
            if G.depth_max(g, c) == top:
                lows.append((_pathdist(g, a, c, sim), _pathdist(g, b, c, sim), top + 1))
    elif sim:
        lows.append((ra, rb, 1))
    return d, lows


def _wup_values(lows, sim):
    vals = []
    for i, j, k in lows:
        vals.append(2 * k / (i + j + 2 * k))
    return vals


def h_path_wup(b0: bool, b1: bool, b2: bool, b3: bool, b4: bool, b5: bool, sim: bool) -> bool:
    """
    post: _
    """
    part = rt.part(2 * len(UPAIRS))[0]
    rev = part // len(UPAIRS) == 1
    a, b = UPAIRS[part % len(UPAIRS)]
    g = G.Graph(N, _adj(N, [b0, b1, b2, b3, b4, b5], rev))
    A, B = g.ss(a), g.ss(b)
    try:
        d, lows = _oracle(g, a, b, sim)
        # path
        p1 = S.path(A, B, simulate_root=sim)
        p2 = S.path(B, A, simulate_root=sim)
        want = 0.0 if d is None else 1 / (d + 1)
        ok = _close(p1, want) and _close(p2, want) and 0.0 <= p1 <= 1.0
        ok = ok and ((p1 == 1.0) == (a == b)) and ((p1 == 0.0) == (d is None))
        ok = ok and p1 <= S.path(A, A, simulate_root=sim)
        # wup
        if not lows:
            for x, y in ((A, B), (B, A)):
                raised = False
                try:
                    S.wup(x, y, simulate_root=sim)
                except wn.Error:
                    raised = True
                ok = ok and raised
        else:
            w1 = S.wup(A, B, simulate_root=sim)
            w2 = S.wup(B, A, simulate_root=sim)
            vals = _wup_values(lows, sim)
            ok = ok and any(_close(w1, v) for v in vals)
            ok = ok and _close(w1, w2) and 0.0 < w1 <= 1.0
            if a == b:
                ok = ok and w1 == 1.0
            ok = ok and w1 <= S.wup(A, A, simulate_root=sim)
    except G.Budget:
        return False
    return rt.verdict(ok)


def h_wup_routes(la: int, lb: int, lh: int, sa: int, sb: int, sim: bool) -> bool:
    """
    pre: la == 1 + rt.part(6)[0] % 3 and sim == (rt.part(6)[0] // 3 == 1)
    pre: 0 <= lb <= 2 and 0 <= lh <= 2 and 0 <= sa <= 2 and 0 <= sb <= 2
    post: _
    """
    # a --la--> H <--lb-- b ; H --lh--> G ; optional shortcuts a --sa--> G, b --sb--> G
    # (a deeper, farther lowest common hypernym H versus a closer, shallower one G)
    names = ['a', 'b', 'H', 'G']
    edges = []

    def chain(src, length, dst):
        prev = src
        for k in range(3):
            if k < length - 1:
                names.append(f'{src}{dst}{k}')
                edges.append((prev, names[-1]))
                prev = names[-1]
        if length >= 1:
            edges.append((prev, dst))
    chain('a', la, 'H')
    if lb >= 1:
        chain('b', lb, 'H')
    if lh >= 1:
        chain('H', lh, 'G')
    if sa >= 1:
        chain('a', sa, 'G')
    if sb >= 1 and lb >= 1:
        chain('b', sb, 'G')
    n = len(names)
    adj = [[False] * n for _ in range(n)]
    for s, t in edges:
        adj[names.index(s)][names.index(t)] = True
    a, b = 0, (1 if lb >= 1 else 2)
    g = G.Graph(n, adj)
    A, B = g.ss(a), g.ss(b)
    d, lows = _oracle(g, a, b, sim)
    ok = True
    if lows:
        w1 = S.wup(A, B, simulate_root=sim)
        w2 = S.wup(B, A, simulate_root=sim)
        ok = any(_close(w1, v) for v in _wup_values(lows, sim)) and _close(w1, w2)
        ok = ok and 0.0 < w1 <= 1.0
    p1 = S.path(A, B, simulate_root=sim)
    ok = ok and _close(p1, 0.0 if d is None else 1 / (d + 1))
    return rt.verdict(ok)


def h_two_databases(b0: bool, b1: bool, b2: bool, c0: bool, c1: bool, c2: bool) -> bool:
    """
    pre: b0 == (rt.part(4)[0] % 2 == 1) and b1 == (rt.part(4)[0] // 2 == 1)
    post: _
    """
    # results are a function of the current database content: the same synset ids/rowids
    # queried after the content behind them has changed (another database in the same
    # process, or remove + add of a revised lexicon) must reflect the new graph
    ok = True
    first = True
    for bits in ([b0, b1, b2], [c0, c1, c2]):
        g = G.Graph(3, _adj(3, bits, False), fresh=first)
        first = False
        for a, b in ((0, 1), (0, 2), (1, 2)):
            d, lows = _oracle(g, a, b, False)
            p = S.path(g.ss(a), g.ss(b))
            ok = ok and _close(p, 0.0 if d is None else 1 / (d + 1))
            if lows:
                w = S.wup(g.ss(a), g.ss(b))
                ok = ok and any(_close(w, v) for v in _wup_values(lows, False))
    return rt.verdict(ok)


def _raises(fn):
    try:
        fn()
    except wn.Error:
        return True
    return False


def h_pos(p1: str, p2: str) -> bool:
    """
    pre: len(p1) == 1 and len(p2) == 1
    post: _
    """
    # synsets of incompatible parts of speech raise wn.Error in all six metrics; a and s are
    # compatible.  Graph: two synsets below a common hypernym.
    g = G.Graph(3, [[False, False, True], [False, False, True], [False, False, False]],
                pos=[p1, p2, p1])
    A, B = g.ss(0), g.ss(1)
    n1 = 'a' if p1 == 's' else p1
    n2 = 'a' if p2 == 's' else p2
    compatible = n1 == n2
    if rt.SYM:
        freq = rt.mkdict([(n1, rt.mkdict([('n0', 1.0), ('n1', 1.0), ('n2', 2.0), (None, 2.0)]))])
    else:
        freq = {n1: {'n0': 1.0, 'n1': 1.0, 'n2': 2.0, None: 2.0}}
    calls = [lambda: S.path(A, B), lambda: S.wup(A, B), lambda: S.lch(A, B, 3),
             lambda: S.res(A, B, freq), lambda: S.jcn(A, B, freq), lambda: S.lin(A, B, freq)]
    ok = True
    part = rt.part(6)[0]
    r = _raises(calls[part])
    ok = r == (not compatible)
    return rt.verdict(ok)


_F = ['wn.similarity.path', 'wn.similarity.wup', '_least_common_subsumers',
      '_check_if_pos_compatible', 'wn.taxonomy.shortest_path', 'lowest_common_hypernyms',
      'max_depth', '_shortest_hyp_paths', 'Synset.relation_paths']
OBLIGATIONS = [
    Ob('path-wup-on-graphs', 'h_path_wup', parts=2 * len(UPAIRS), quick=dict(timeout=150),
       thorough=dict(timeout=900), canary=[('path-off-by-one', 1)],
       twin_parts=[0, 1, 5], functions=_F,
       stubs=['relation source: adjacency matrix'],
       symbolic='6 adjacency bits, simulate_root',
       bounds='all DAGs on 4 nodes in topological labelling and its reverse; every pair (one '
              'partition per unordered pair, both directions compared)',
       outside='larger graphs; cyclic graphs (depth is not well defined)'),
    Ob('wup-routes', 'h_wup_routes', parts=6, quick=dict(timeout=200), thorough=dict(timeout=900),
       canary=[('wup-via-shortest-path', 1)], functions=_F,
       stubs=['relation source: adjacency matrix'],
       symbolic='chain lengths la (1-3), lb (0-2), lh (0-2), shortcut lengths sa, sb (0-2), '
                'simulate_root',
       bounds='template graphs of up to 12 nodes: two synsets with a deeper common hypernym H '
              'and optional shorter routes to a shallower common hypernym G above it'),
    Ob('content-change', 'h_two_databases', parts=4, quick=dict(timeout=200), thorough=dict(timeout=600),
       canary=None, functions=_F, stubs=['relation source: adjacency matrix'],
       symbolic='adjacency bits of two 3-node DAGs queried one after the other in one process',
       bounds='all pairs of DAGs on 3 nodes (64 combinations); functools caches are modelled '
              '(vf.lincont.model_lru_cache) instead of being bypassed'),
    Ob('pos-compatibility', 'h_pos', parts=6, quick=dict(timeout=120),
       thorough=dict(timeout=300), canary=[('sat-incompatible', 0)],
       functions=['wn.similarity._check_if_pos_compatible', 'path', 'wup', 'lch', 'res', 'jcn',
                  'lin', 'wn.ic.information_content', 'wn.ic.synset_probability'],
       symbolic='the parts of speech of the two synsets (any one-character strings)',
       bounds='one partition per metric; a fixed 3-node graph and IC table'),
]

# z3-level obligations are run by vf.formulas (see EXTRA below)
EXTRA = 'formulas'
