"""C07 - the way a resource is supplied does not change what gets stored (decidable part).

Decided here: the skip rules of _precheck, non-modification of an in-memory resource, the
equivalence of the file route (_add_lmf with scan/load stubbed by the same document) and the
in-memory route, and the file-signature sniffers on arbitrary byte prefixes.  NOT decided:
equality across gzip / xz / tar / package / collection routes (zlib, liblzma, tarfile and the
file system are C / IO code that the engine can only run on concrete values).
"""
from vf import rt
from vf.chx import Ob

CANARIES = {
    'alias-frame-senses': ('wn._add', "            'senses': list(frame.get('senses', [])),", "            'senses': frame.get('senses', []),"),
    'file-route-any': ('wn._add', "    skipmap = _precheck(infos, progress)\n    if all(skipmap.values()):\n        return  # nothing to do\n\n    # all clear, try to add them",
                       "    skipmap = _precheck(infos, progress)\n    if any(skipmap.values()):\n        return  # nothing to do\n\n    # all clear, try to add them"),
    'skip-only-first-extension': ('wn._add', "            elif base and cur.execute(lexqry, base).fetchone() is None:",
                                  "            elif base and not skipmap and cur.execute(lexqry, base).fetchone() is None:"),
    'gzip-one-byte': ('wn._util', "    return _inspect_file_signature(path, b'\\x1F\\x8B')", "    return _inspect_file_signature(path, b'\\x1F')"),
    'sort-entries': ('wn._add', "            entries: Sequence[_AnyEntry] = _entries(lexicon)",
                     "            entries: Sequence[_AnyEntry] = _entries(lexicon)\n            entries.sort(key=lambda e: e['id'], reverse=True)"),
}
rt.setup(canaries=CANARIES)

import copy  # noqa: E402
import io  # noqa: E402
import wn  # noqa: E402
import wn._add as A  # noqa: E402
from wn import lmf  # noqa: E402
from wn import _util  # noqa: E402
from wn.util import ProgressHandler  # noqa: E402
from vf import docs  # noqa: E402

TECHNIQUE = 'CrossHair symbolic execution of the real _precheck / add_lexical_resource / _add_lmf ' \
            'over the SQL model with symbolic choice of what is installed and which lexicons a ' \
            'resource holds; signature sniffers on symbolic byte prefixes'
ASSUMPTIONS = [
    'NOT APPLICABLE part: content equality across .gz / .xz / tar / package / collection routes '
    '(decompression, archives and directories are C / IO code outside the engine)',
    'file route: lmf.scan_lexicons and lmf.load are stubbed to deliver the same document (their '
    'own agreement is C20 / C02)',
]


def _resource(which, style):
    p = docs.P({'has_frame_senses': True})
    pool = {'L': docs.lexicon_rich(p, lid='L', style=style),
            'S': docs.lexicon_small(p, 'S', tag='s'),
            'X': docs.extension_rich(p) if style == '1.1' else
            docs.extension_small(p, 'X', base=('L', '1'), tag='x', btag='', second=True),
            'Y': docs.extension_small(p, 'Y', base=('Q', '1'), tag='y', btag='q')}   # base Q never exists
    return [pool[k] for k in which]


ORDERS = [['L'], ['L', 'S'], ['S', 'Y', 'L'], ['L', 'X'], ['Y'], ['S', 'L', 'Y']] + (
    [['X', 'L'], ['S', 'X'], ['L', 'S', 'X'], ['Y', 'S'], ['S'], ['X', 'Y', 'S']] if rt.THOROUGH else [])
NORD = len(ORDERS)


def _pick(options, k):
    for n in range(len(options)):
        if k == n:
            return options[n]
    return options[0]


def h_not_modified(ko: int, new: bool, pre_l: bool) -> bool:
    """
    pre: 0 <= ko < NORD
    post: _
    """
    style = '1.1' if new else '1.0'
    res = docs.resource(_resource(_pick(ORDERS, ko), style), style)
    rt.DB()
    rt.stub_normalizer()
    A.BATCH_SIZE = 2
    if pre_l:
        rt.quiet_add(docs.resource(_resource(['L'], style), style))
    before = copy.deepcopy(res)
    rt.quiet_add(res)
    ok = res == before
    rt.quiet_add(res)          # adding again changes neither the resource ...
    ok = ok and res == before
    return rt.verdict(ok)


def h_skip_rules(ko: int, new: bool, pre_l: bool, pre_s: bool) -> bool:
    """
    pre: 0 <= ko < NORD
    post: _
    """
    style = '1.1' if new else '1.0'
    which = _pick(ORDERS, ko)
    db = rt.DB()
    rt.stub_normalizer()
    installed = []
    if pre_l:
        rt.quiet_add(docs.resource(_resource(['L'], style), style))
        installed.append('L')
    if pre_s:
        rt.quiet_add(docs.resource(_resource(['S'], style), style))
        installed.append('S')
    rt.quiet_add(docs.resource(_resource(which, style), style))
    # expected: already installed -> skipped; extension -> only if its base is installed
    # *before the call* (a base that arrives in the same resource does not count: documented
    # by _precheck running before anything is added); Y's base never exists
    want = list(installed)
    for k in which:
        if k in want:
            continue
        if k == 'X' and 'L' not in installed:
            continue
        if k == 'Y':
            continue
        want.append(k)
    ok = [lx.id for lx in wn.lexicons()] == want
    snap = db.dump()
    rt.quiet_add(docs.resource(_resource(which, style), style))
    if 'X' in which and 'L' in want and 'X' not in want:
        pass        # now the base is there: the extension may be added by the second call
    else:
        ok = ok and db.dump() == snap          # adding what is installed changes nothing
    if 'L' in want:
        ok = ok and docs.observe_lexicon(wn, 'L:1') is not None
    return rt.verdict(ok)


def h_routes(ko: int, new: bool, pre_l: bool) -> bool:
    """
    pre: 0 <= ko < NORD
    post: _
    """
    # the file route (_add_lmf) against the in-memory route, same document
    style = '1.1' if new else '1.0'
    which = _pick(ORDERS, ko)
    dumps = []
    for route in ('memory', 'file'):
        db = rt.DB(fresh=(route == 'memory'))
        rt.stub_normalizer()
        if pre_l:
            rt.quiet_add(docs.resource(_resource(['L'], style), style))
        res = docs.resource(_resource(which, style), style)
        if route == 'memory':
            rt.quiet_add(res)
        else:
            saved = (lmf.scan_lexicons, lmf.load)
            lmf.scan_lexicons = lambda source: [
                {'id': lx['id'], 'version': lx['version'], 'label': lx['label'],
                 'extends': ({'id': lx['extends']['id'], 'version': lx['extends']['version']}
                             if lx.get('extends') else None)} for lx in res['lexicons']]
            lmf.load = lambda source, progress_handler=None: res
            try:
                A._add_lmf('doc.xml', ProgressHandler(message=''), ProgressHandler)
            finally:
                lmf.scan_lexicons, lmf.load = saved
        dumps.append(db.dump())
    return rt.verdict(dumps[0] == dumps[1])


class _FakePath:
    DATA = b''

    def __init__(self, *a):
        pass

    def is_file(self):
        return True

    def open(self, mode='rb'):
        return io.BytesIO(_FakePath.DATA)


SIG = [0x1F, 0x8B, 0xFD, 0x37, 0x7A, 0x58, 0x5A, 0x00, 0x3C, 0x3F, 0x78, 0x6D, 0x6C, 0x20, 0x41]
BASES = [b'\x1f\x8b\x08\x00\x00\x00', b'\xfd7zXZ\x00', b'<?xml ', b'AAAAAA']


def h_signatures(pos: int, r: int, n: int) -> bool:
    """
    pre: 0 <= pos < 6 and 0 <= r < 15 and 0 <= n <= 6
    post: _
    """
    # a real signature (or none) with one byte replaced and the file cut after n bytes
    base = BASES[rt.part(4)[0]]
    data = bytearray(base)
    for i in range(6):
        if pos == i:
            data[i] = _pick(SIG, r)
    data = bytes(data)[:n]
    _FakePath.DATA = data
    g, z, x = _util.is_gzip(_FakePath()), _util.is_lzma(_FakePath()), _util.is_xml(_FakePath())
    ok = g == (data[:2] == b'\x1f\x8b') and z == (data[:6] == b'\xfd7zXZ\x00') and \
        x == (data[:6] == b'<?xml ')
    ok = ok and (g + z + x) <= 1
    return rt.verdict(ok)


_F = ['wn._add.add_lexical_resource', '_add_lexical_resource', '_precheck', '_collect_frames',
      '_add_lmf', 'every _insert_* function (resource only read)']
OBLIGATIONS = [
    Ob('resource-not-modified', 'h_not_modified', quick=dict(timeout=250),
       thorough=dict(timeout=600), canary=[('alias-frame-senses', 0), ('sort-entries', 0)],
       functions=_F, stubs=['vf.sqlmodel', 'normalize_form = identity'],
       symbolic='which lexicons the resource holds and in which order ' + str(ORDERS)
                + ', 1.0- or 1.1-style document, whether L is installed already',
       bounds='rich lexicon L (lexicon-level frames with subcat references / entry-level frames), '
              'small lexicon S, extension X of L, extension Y of a lexicon that never exists; deep '
              'copy before = resource after, also after adding twice'),
    Ob('skip-rules', 'h_skip_rules', quick=dict(timeout=280), thorough=dict(timeout=600),
       canary=[('skip-only-first-extension', 0)], functions=_F[:3],
       stubs=['vf.sqlmodel', 'normalize_form = identity'],
       symbolic='resource composition and order, what is installed beforehand (L, S)',
       bounds='installed lexicons are skipped and change nothing; an extension whose base is not '
              'installed is skipped as a whole, also between other lexicons of the resource'),
    Ob('file-vs-memory-route', 'h_routes', quick=dict(timeout=280), thorough=dict(timeout=600),
       canary=[('file-route-any', 0)], functions=['wn._add._add_lmf', 'add_lexical_resource'],
       stubs=['vf.sqlmodel', 'lmf.scan_lexicons / lmf.load deliver the same document'],
       symbolic='resource composition and order, style, whether L is installed already',
       bounds='full table dumps of both routes are equal'),
    Ob('file-signatures', 'h_signatures', parts=4, quick=dict(timeout=200),
       thorough=dict(timeout=600), canary=[('gzip-one-byte', 0)],
       functions=['wn._util.is_gzip', 'is_lzma', 'is_xml', '_inspect_file_signature'],
       stubs=['fake file'],
       symbolic='a gzip / xz / xml signature or none (partition) with one byte at a symbolic position '
                'replaced by a symbolic byte from the signature alphabet, cut after 0-6 bytes',
       bounds='exact and mutually exclusive'),
]
