"""C08 - lexicon specifiers and language codes select exactly the documented lexicons.

Table-symbolic: the lexicons table holds three rows whose id / version / language are
symbolic strings; the specifier is built from a template out of symbolic strings.  The real
find_lexicons (Python loop + SQL with GLOB, ORDER BY, LIMIT interpreted by vf.sqlmodel) runs
through wn.lexicons() and wn.Wordnet().
"""
from vf import rt
from vf.chx import Ob

CANARIES = {
    'first-added': ('wn._queries', "        order = 'DESC' if bare_id else 'ASC'", "        order = 'ASC'"),
    'limit-from-whole-string': ('wn._queries', "        limit = '1' if bare_id or '*' not in specifier else '-1'",
                                "        limit = '-1' if '*' in lexicon else '1'"),
    'lang-precedence': ('wn._queries', "               AND (:language ISNULL OR language = :language)",
                        "               AND :language ISNULL OR language = :language"),
    'dedupe-by-id': ('wn._core', "        lexs = list(find_lexicons(lexicon or '*', lang=lang))",
                     "        lexs = list({lx[1]: lx for lx in find_lexicons(lexicon or '*', lang=lang)}.values())"),
    'no-error': ('wn._queries', "    if not found and (lexicon != '*' or lang is not None):",
                 "    if not found and lexicon != '*' and lang is not None:"),
}
rt.setup(canaries=CANARIES)

import wn  # noqa: E402

TECHNIQUE = 'CrossHair symbolic execution of the real find_lexicons / Wordnet.__init__ / wn.lexicons ' \
            'over the SQL model (GLOB, ORDER BY, LIMIT) with symbolic ids, versions, languages and ' \
            'specifier parts'
ASSUMPTIONS = [
    'SQLite replaced by vf.sqlmodel incl. its GLOB matcher (validated against real sqlite3)',
    'ids / versions / query parts range over printable ASCII without * ? [ : (templates supply '
    'the stars); a selection is compared as a set of lexicons',
]

TEMPLATES = ['*', 'I', 'I:*', 'I:V', '*:V', 'I*', 'I J:*', 'I:V J', 'I:* *:V', 'J:* I', '*:V I'] + (
    ['I J', '* I', 'I:V J:*', 'J I', 'I* J'] if rt.THOROUGH else [])


def _ok(s):
    """printable ASCII without glob / specifier syntax characters (and hence without white
    space: str.split() splits on every Unicode space, which XML ids cannot contain anyway)"""
    acc = True
    for ch in s:
        acc = acc & ('!' <= ch) & (ch <= '~')
        for sp in '*?[:':
            acc = acc & (ch != sp)
    return acc


def _rows(a, b, v1, v2, l1, l3):
    def row(i, lid, ver, lang):
        return [i, lid, 'label', lang, 'e', 'lic', ver, None, None, None, None, False]
    # added in this order: a:v1, b:v2, a:v2  (two versions of a, the later one added last)
    return [row(1, a, v1, l1), row(2, b, v2, l1), row(3, a, v2, l3)]


PARTS = {'*': ('star',), 'I': ('bare', 'I'), 'J': ('bare', 'J'), 'I:*': ('idstar', 'I'),
         'J:*': ('idstar', 'J'), 'I:V': ('idver', 'I', 'V'), '*:V': ('starver', 'V'),
         'I*': ('prefix', 'I')}


def _spec(t, val):
    """(specifier string, structured parts) of template t with I, J, V substituted"""
    parts = []
    texts = []
    for tok in TEMPLATES[t].split():
        kind = PARTS[tok]
        args = [val[x]() for x in kind[1:]]
        parts.append((kind[0], args))
        texts.append({'star': '*', 'bare': '{0}', 'idstar': '{0}:*', 'idver': '{0}:{1}',
                      'starver': '*:{0}', 'prefix': '{0}*'}[kind[0]].format(*args))
    return ' '.join(texts), parts


def _match_one(part, rows):
    """rowids selected by one specifier (independent reading of docs/guides/lexicons.rst)"""
    kind, args = part
    if kind == 'star':
        return [r[0] for r in rows]
    if kind == 'bare':
        hits = [r[0] for r in rows if r[1] == args[0]]
        return hits[-1:]                 # the most recently added lexicon with that id
    if kind == 'prefix':
        return [r[0] for r in rows if r[1][:len(args[0])] == args[0]]
    if kind == 'idstar':
        return [r[0] for r in rows if r[1] == args[0]]
    if kind == 'idver':
        return [r[0] for r in rows if r[1] == args[0] and r[6] == args[1]]
    if kind == 'starver':
        return [r[0] for r in rows if r[6] == args[0]]
    raise AssertionError(kind)


IS = ['a', 'b', 'ab', 'abc', 'x', 'a-b', 'A', 'a.1+x']
JS = ['a', 'b', 'x']
VS = ['1', '2', '1.0+x']
LS = ['en', 'de', 'fr', 'EN']


def _pick(options, k):
    for n in range(len(options)):
        if k == n:
            return options[n]
    return options[0]


def h_select(b2: bool, ki: int, kj: int, kv: int, kl: int, use_lang: bool, dotted: bool) -> bool:
    """
    pre: 0 <= ki < 8 and 0 <= kj < 3 and 0 <= kv < 3 and 0 <= kl < 4
    pre: b2 == (rt.part(2 * len(TEMPLATES))[0] // len(TEMPLATES) == 1)
    post: _
    """
    # stored lexicons: a:1, b:2, a:2 (added in this order); b is 'b' or 'ab' (an id that has
    # another id as a prefix); languages en, en, de.  Specifier parts and the language code
    # are chosen by symbolic indexes from pools containing stored and unknown values.
    # (Character-level symbolic strings were tried first: every character-class constraint
    # forks the path, see DESIGN.md.)
    a, v1, v2, l1, l3 = 'a', '1', ('1.0+x' if dotted else '2'), 'en', 'de'
    b = 'ab' if b2 else 'b'
    t = rt.part(2 * len(TEMPLATES))[0] % len(TEMPLATES)
    db = rt.DB()
    rows = _rows(a, b, v1, v2, l1, l3)
    db.insert_rows('lexicons', rows)
    spec, parts = _spec(t, {'I': lambda: _pick(IS, ki), 'J': lambda: _pick(JS, kj),
                            'V': lambda: _pick(VS, kv)})
    lang = _pick(LS, kl) if use_lang else None
    cand = rows if lang is None else [r for r in rows if r[3] == lang]
    want = []
    for part in parts:
        for rid in _match_one(part, cand):
            if rid not in want:
                want.append(rid)
    got = [lx._id for lx in wn.lexicons(lexicon=spec, lang=lang)]
    ok = sorted(set(got)) == sorted(want)
    # Wordnet: the same selection, or wn.Error when nothing at all matches
    raised = False
    try:
        w = wn.Wordnet(spec, lang=lang)
        sel = [lx._id for lx in w.lexicons()]
    except wn.Error:
        raised = True
        sel = []
    ok = ok and (raised == (not want)) and sorted(set(sel)) == sorted(want)
    return rt.verdict(ok)


def h_empty(kl: int, use_lang: bool, star: bool, ki: int) -> bool:
    """
    pre: 0 <= kl < 4 and 0 <= ki < 8
    post: _
    """
    lg, i = _pick(LS, kl), _pick(IS, ki)
    # an empty database: '*' without lang is not an error, anything else is
    rt.DB()
    spec = '*' if star else i
    lang = lg if use_lang else None
    ok = wn.lexicons(lexicon=spec, lang=lang) == []
    raised = False
    try:
        wn.Wordnet(spec, lang=lang)
    except wn.Error:
        raised = True
    ok = ok and raised == (not (star and not use_lang))
    return rt.verdict(ok)


_F = ['wn._queries.find_lexicons (loop + SQL)', 'wn._core.Wordnet.__init__', 'wn._core.lexicons',
      'wn._core._to_lexicon']
OBLIGATIONS = [
    Ob('select', 'h_select', parts=2 * len(TEMPLATES), quick=dict(timeout=240),
       thorough=dict(timeout=900),
       canary=[('first-added', 1), ('limit-from-whole-string', 6), ('lang-precedence', 2),
               ('dedupe-by-id', 2)],
       functions=_F, stubs=['vf.sqlmodel (GLOB, ORDER BY, LIMIT)'],
       symbolic='whether id b has id a as a prefix and whether a version has dots/plus, for three '
                'stored lexicons (a:1, b:2, a:2 added in this order); specifier parts I, J, V and the '
                'language code by symbolic index into pools ' + str(IS) + str(JS) + str(VS) + str(LS)
                + '; whether a language is given',
       bounds='3 lexicons; one partition per specifier template ' + ', '.join(TEMPLATES)
              + '',
       outside='arbitrary glob patterns beyond the templates; more than three lexicons'),
    Ob('empty-database', 'h_empty', quick=dict(timeout=60), canary=[('no-error', 0)],
       functions=_F, stubs=['vf.sqlmodel'], symbolic='language, specifier',
       bounds='no lexicon installed'),
]
