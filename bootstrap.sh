#!/bin/sh
# Idempotent: build /verif/.venv as an overlay on /venv (the repository's own
# environment) plus /repo on the path, and install crosshair-tool from the offline
# wheelhouse.  Called by MANIFEST.setup_cmd and at the start of every check.
set -e
cd "$(dirname "$0")"
V=.venv
if [ ! -x "$V/bin/python" ] || ! "$V/bin/python" -c 'import crosshair, z3, wn' 2>/dev/null; then
    rm -rf "$V"
    /venv/bin/python -m venv "$V"
    SP=$("$V/bin/python" -c 'import sysconfig; print(sysconfig.get_paths()["purelib"])')
    printf '%s\n%s\n' /venv/lib/python3.12/site-packages /repo > "$SP/_vf_overlay.pth"
    PIP_NO_INDEX=1 "$V/bin/pip" install -q --no-index --find-links /opt/veriftools/wheels \
        crosshair-tool jsonschema >/dev/null
    "$V/bin/python" -c 'import crosshair, z3, wn'
fi
