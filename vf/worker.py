"""One CrossHair analysis: (harness file, function, partition, mode) -> JSON.

Runs in its own process.  Exit code is always 0 when a JSON result was written;
the driver interprets the verdict.
"""
import argparse
import collections
import importlib.util
import json
import os
import re
import sys
import time
import traceback


def main():
    ap = argparse.ArgumentParser()
    ap.add_argument('--harness', required=True)
    ap.add_argument('--fn', required=True)
    ap.add_argument('--part', default='')
    ap.add_argument('--mode', default='main', choices=['main', 'twin', 'canary'])
    ap.add_argument('--canary', default='')
    ap.add_argument('--timeout', type=float, default=60.0)
    ap.add_argument('--path-timeout', type=float, default=10.0)
    ap.add_argument('--out', required=True)
    a = ap.parse_args()

    os.environ['VF_MODE'] = 'sym'
    os.environ['VF_PART'] = a.part
    os.environ['VF_TWIN'] = '1' if a.mode == 'twin' else '0'
    os.environ['VF_CANARY'] = a.canary if a.mode == 'canary' else ''
    verif = os.path.dirname(os.path.dirname(os.path.abspath(__file__)))
    if verif not in sys.path:
        sys.path.insert(0, verif)

    res = {'harness': a.harness, 'fn': a.fn, 'part': a.part, 'mode': a.mode,
           'canary': a.canary, 'timeout': a.timeout}
    t0 = time.time()
    try:
        res.update(run(a))
    except BaseException as exc:  # noqa: BLE001 - report everything as harness error
        res['verdict'] = 'harness-error'
        res['error'] = ''.join(traceback.format_exception(type(exc), exc, exc.__traceback__))[-4000:]
    res['wall_s'] = round(time.time() - t0, 3)
    with open(a.out, 'w') as f:
        json.dump(res, f)


def run(a):
    import z3
    acct = {'smt_queries': 0, 'solver_s': 0.0}
    orig_check = z3.Solver.check

    def check(self, *args):
        t = time.perf_counter()
        try:
            return orig_check(self, *args)
        finally:
            acct['smt_queries'] += 1
            acct['solver_s'] += time.perf_counter() - t
    z3.Solver.check = check

    spec = importlib.util.spec_from_file_location(
        'vf_harness_' + os.path.basename(a.harness)[:-3], a.harness)
    mod = importlib.util.module_from_spec(spec)
    sys.modules[spec.name] = mod
    spec.loader.exec_module(mod)
    from vf import transforms
    transforms.verify_patches_used()
    fn = getattr(mod, a.fn)

    import crosshair.core as core
    from crosshair.core_and_libs import analyze_function, run_checkables
    from crosshair.options import AnalysisOptionSet
    from crosshair.statespace import MessageType

    # Never short-circuit contracted callees (CrossHair would otherwise replace calls of its
    # own contracted builtins such as repr()/hash() - and of any contracted helper - by a fresh
    # symbolic value behind a parallel fork, doubling the path tree at each call and
    # weakening the check to the callee's postcondition): always call into the real code.
    orig_consider = core.consider_shortcircuit

    def consider(fn_, sig, bound, subconditions, allow_interpretation):
        if allow_interpretation:
            return None
        return orig_consider(fn_, sig, bound, subconditions, allow_interpretation)
    core.consider_shortcircuit = consider

    captured = []
    orig_calltree = core.analyze_calltree

    def calltree(options, conditions):
        r = orig_calltree(options, conditions)
        captured.append(r)
        return r
    core.analyze_calltree = calltree

    stats = collections.Counter()
    opts = AnalysisOptionSet(per_condition_timeout=a.timeout,
                             per_path_timeout=a.path_timeout,
                             report_all=True, stats=stats)
    checkables = analyze_function(fn, opts)
    if not checkables:
        return {'verdict': 'harness-error', 'error': 'no contract found on ' + a.fn}
    msgs = run_checkables(checkables)
    out = {'paths': int(stats.get('num_paths', 0)),
           'confirmed_paths': sum(int(c.num_confirmed_paths) for c in captured),
           'smt_queries': acct['smt_queries'], 'solver_s': round(acct['solver_s'], 3),
           'transform_sites': dict(transforms.STATS),
           'messages': [{'state': m.state.name, 'message': m.message[:2000], 'line': m.line}
                        for m in msgs]}
    states = [m.state for m in msgs]
    bad = (MessageType.POST_FAIL, MessageType.EXEC_ERR, MessageType.POST_ERR)
    if any(s in bad for s in states):
        m = [m for m in msgs if m.state in bad][0]
        out['verdict'] = 'counterexample'
        out['cex_kind'] = m.state.name
        out['cex_message'] = m.message[:4000]
        msg = m.message
        for marker in (' (which returns ', ' (which raises '):
            k = msg.rfind(marker)
            if k >= 0 and msg.rstrip().endswith(')'):
                msg = msg[:k]
        mm = re.search(r'when calling (\w+)\((.*)\)\s*$', msg, re.S)
        if mm:
            out['cex_call'] = f'{mm.group(1)}({mm.group(2)})'
    elif any(s == MessageType.PRE_UNSAT for s in states):
        out['verdict'] = 'pre-unsat'
    elif any(s == MessageType.SYNTAX_ERR for s in states):
        out['verdict'] = 'harness-error'
        out['error'] = '; '.join(m.message for m in msgs)
    elif any(s == MessageType.CONFIRMED for s in states):
        out['verdict'] = 'confirmed'
    else:
        out['verdict'] = 'no-counterexample-in-budget'
    return out


if __name__ == '__main__':
    main()
