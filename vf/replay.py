"""Re-run a harness function on concrete arguments outside CrossHair, in real mode.

Prints one JSON line: {"result": true|false|"exception", ...}.  ``false`` or an
exception means the counterexample reproduces against the unmodified code.
"""
import argparse
import importlib.util
import json
import os
import sys
import traceback


def load_harness(path):
    spec = importlib.util.spec_from_file_location(
        'vf_harness_' + os.path.basename(path)[:-3], path)
    mod = importlib.util.module_from_spec(spec)
    sys.modules[spec.name] = mod
    spec.loader.exec_module(mod)
    return mod


def main():
    ap = argparse.ArgumentParser()
    ap.add_argument('--harness', required=True)
    ap.add_argument('--fn', required=True)
    ap.add_argument('--part', default='')
    ap.add_argument('--call', required=True, help="e.g. h('ab', 3)")
    ap.add_argument('--canary', default='')
    ap.add_argument('--mode', default='real')
    a = ap.parse_args()
    os.environ['VF_MODE'] = a.mode
    os.environ['VF_PART'] = a.part
    os.environ['VF_TWIN'] = '0'
    os.environ['VF_CANARY'] = a.canary
    verif = os.path.dirname(os.path.dirname(os.path.abspath(__file__)))
    if verif not in sys.path:
        sys.path.insert(0, verif)
    out = {}
    try:
        mod = load_harness(a.harness)
        fn = getattr(mod, a.fn)
        ns = {a.fn: fn, 'float': float, 'nan': float('nan'), 'inf': float('inf')}
        r = eval(a.call, ns)  # noqa: S307 - our own counterexample text
        out['result'] = bool(r)
    except Exception as exc:  # noqa: BLE001
        out['result'] = 'exception'
        out['exc'] = ''.join(traceback.format_exception(type(exc), exc, exc.__traceback__))[-3000:]
    print(json.dumps(out))


if __name__ == '__main__':
    main()
