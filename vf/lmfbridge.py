"""Writer -> reader bridge for wn.lmf.

The real writer (``_dump_lexicon`` and everything below it) runs and builds real
ElementTree elements; ``_tostring`` is intercepted so that each element reaches this bridge
instead of the serializer.  The bridge replays the element as the events expat would deliver
(start with the attribute dict, character data - possibly in two chunks, as expat's buffering
may split text - and end) into the real handler closures taken from the parser object that
``_make_parser`` returns; the real ``_validate`` finishes the load.

Stub contract (part of every claim that uses the bridge): an element written by ElementTree
is delivered with the same tag, attributes, text and nesting; ``dc:x`` attributes arrive as
``"<dc-uri> x"``.  The escaping done by ``ET.tostring`` / ``quoteattr`` and undone by expat is
checked separately against a reference un-escaper (C02 escaping obligations).  The hand
written ``<Lexicon ...>`` start tag *is* taken from the real output text and parsed by a
small reference parser (``parse_start_tag``).
"""
import re

from wn import lmf


_SINK = []      # module level: CrossHair's patched print() deep-copies its `file` argument


class _Out:
    """file-like collector for the writer's print(..., file=out) calls"""

    @property
    def items(self):
        return _SINK

    def write(self, s):
        _SINK.append(('text', s))


_ENT = {'amp': '&', 'lt': '<', 'gt': '>', 'quot': '"', 'apos': "'"}


def unescape_ref(s, attribute=False):
    """Reference XML un-escaper: the five predefined entities and numeric character
    references; for attribute values literal tab / newline / carriage return are
    normalised to a space first (XML 1.0 section 3.3.3)."""
    out = []
    i = 0
    n = len(s)
    while i < n:
        c = s[i]
        if c == '&':
            j = s.find(';', i)
            if j < 0:
                raise ValueError('unterminated reference')
            name = s[i + 1:j]
            if name[:2] in ('#x', '#X'):
                out.append(chr(int(name[2:], 16)))
            elif name[:1] == '#':
                out.append(chr(int(name[1:])))
            else:
                out.append(_ENT[name])
            i = j + 1
        else:
            if attribute and c in '\t\n\r':
                c = ' '
            out.append(c)
            i += 1
    return ''.join(out)


_ATTR = re.compile(r'''\s*([A-Za-z_:][-A-Za-z0-9_:.]*)\s*=\s*("([^"]*)"|'([^']*)')''')


def parse_start_tag(text):
    """'<Lexicon a="1" b='2'>' -> ('Lexicon', {'a': '1', 'b': '2'}) (reference parser)"""
    text = text.strip()
    if not (text.startswith('<') and text.endswith('>')):
        raise ValueError('not a start tag: ' + text[:40])
    body = text[1:-1].rstrip('/')
    m = re.match(r'([A-Za-z_][-A-Za-z0-9_.]*)', body)
    name = m.group(1)
    attrs = {}
    pos = m.end()
    while pos < len(body):
        m = _ATTR.match(body, pos)
        if not m:
            if body[pos:].strip():
                raise ValueError('cannot parse attributes: ' + body[pos:pos + 40])
            break
        val = m.group(3) if m.group(3) is not None else m.group(4)
        attrs[m.group(1)] = unescape_ref(val, attribute=True)
        pos = m.end()
    return name, attrs


class Bridge:
    def __init__(self, version, split_text=False):
        self.version = version
        self.split_text = split_text
        self.root = {}

        class _P:
            def update(self, *a, **k):
                pass
        self.parser = lmf._make_parser(self.root, version, _P())
        self.start = self.parser.StartElementHandler
        self.end = self.parser.EndElementHandler
        self.chars = self.parser.CharacterDataHandler
        self.dc = lmf._DC_URIS[version]
        self.trees = []

    def _attrs(self, attrib):
        out = {}
        for k, v in attrib.items():
            if k.startswith('dc:'):
                out[self.dc + ' ' + k[3:]] = v
            else:
                out[k] = v
        return out

    def feed_element(self, elem):
        self.start(elem.tag, self._attrs(elem.attrib))
        text = elem.text
        if text:
            if self.split_text and len(text) > 1:
                self.chars(text[:1])
                self.chars(text[1:])
            else:
                self.chars(text)
        for child in elem:
            self.feed_element(child)
            if child.tail:
                self.chars(child.tail)
        self.end(elem.tag)

    def tree(self, elem):
        return (elem.tag, sorted(elem.attrib.items()), elem.text if not len(elem) else None,
                [self.tree(c) for c in elem])


def dump_to_events(resource, split_text=False):
    """Run the real writer on *resource* and the real reader handlers on what it wrote.
    Returns (loaded resource, list of element trees written)."""
    version = resource['lmf_version']
    if version not in lmf.SUPPORTED_VERSIONS:
        raise lmf.LMFError(f'invalid version: {version}')
    br = Bridge(version, split_text)
    vinfo = lmf.version_info(version)
    saved = lmf._tostring
    trees = []

    def capture(elem, level, short_empty_elements=True):
        lmf._indent(elem, level)
        _SINK.append(('elem', elem))
        return ''
    lmf._tostring = capture
    try:
        br.start('LexicalResource', {})
        for lexicon in resource['lexicons']:
            out = _Out()
            _SINK[:] = []
            lmf._dump_lexicon(lexicon, out, vinfo)
            opened = None
            for kind, item in list(_SINK):
                if kind == 'elem':
                    trees.append(br.tree(item))
                    br.feed_element(item)
                    continue
                text = item.strip()
                if not text:
                    continue
                if text.startswith('</'):
                    br.end(text[2:-1])
                elif text.startswith('<'):
                    name, attrs = parse_start_tag(text)
                    trees.append((name, sorted(attrs.items()), None, []))
                    attrs = {(br.dc + ' ' + k[3:] if k.startswith('dc:') else k): v
                             for k, v in attrs.items()}
                    br.start(name, attrs)
                    opened = name
            del opened
        br.end('LexicalResource')
    finally:
        lmf._tostring = saved
    loaded = {'lmf_version': version,
              'lexicons': [lmf._validate(lex)
                           for lex in br.root['lexical-resource'].get('lexicons', [])]}
    return loaded, trees


_DEFAULT_TRUE = ('lexicalized', 'phonemic')


def canon(x, key=None):
    """Normal form for comparing resources: an absent optional attribute equals an empty one,
    an absent boolean equals its default, metadata with only empty values equals None."""
    if isinstance(x, dict):
        out = {}
        for k, v in x.items():
            v = canon(v, k)
            if v is None or v == '' or v == [] or v == {}:
                continue
            if k in _DEFAULT_TRUE and v is True:
                continue
            if k == 'external' and not v:
                continue
            out[k] = v
        return out
    if isinstance(x, list):
        return [canon(v) for v in x]
    return x
