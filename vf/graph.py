"""Hypernym graphs for the taxonomy / similarity / IC harnesses.

Symbolic mode: the relation source ``wn._core.get_synset_relations`` is replaced by a stub
that returns the edges of an adjacency matrix (whose bits are symbolic) in the column layout
of the real query; Synset objects are the real class.  Real mode (replay): the same graph is
written as a WN-LMF resource, added to a real database, and a real Wordnet is used.

Node i has rowid i+1 and id 'n<i>'.  ``adj[i][j]`` = i has hypernym j; ``inst[i][j]`` says the
edge is an instance_hypernym (else hypernym).  Reverse edges exist as hyponym /
instance_hyponym relations.
"""
from vf import rt


class Budget(Exception):
    """The relation source was asked more often than any terminating traversal could."""


class Graph:
    def __init__(self, n, adj, pos=None, inst=None, budget=4000, words=None, fresh=True):
        if fresh:
            rt.begin()
        self.n = n
        self.adj = adj
        self.pos = pos or ['n'] * n
        self.inst = inst
        self.calls = 0
        self.budget = budget
        self.words = words or {}        # form -> [node indexes] (for ic.compute)
        if rt.SYM:
            self._install_stub()
        else:
            self._install_real()

    # -- common helpers (concrete structure, possibly symbolic bits) --------
    def edge(self, i, j):
        return self.adj[i][j]

    def kind(self, i, j):
        if self.inst is not None and self.inst[i][j]:
            return 'instance_hypernym'
        return 'hypernym'

    def hypers(self, i):
        return [j for j in range(self.n) if self.adj[i][j]]

    def hypos(self, j):
        return [i for i in range(self.n) if self.adj[i][j]]

    def ss(self, i):
        return self._synsets[i]

    def idx(self, synset):
        """node index of a Synset (None for the simulated root / placeholders)"""
        if synset.id[:1] == 'n' and synset._id != 0:
            return synset._id - 1
        return None

    # -- symbolic mode ---------------------------------------------------------
    def _install_stub(self):
        from wn import _core
        g = self

        class FakeWordnet:
            _default_mode = False
            _lexicon_ids = (1,)
            _expanded_ids = ()
            _lexicons = ()

            def synsets(self, form=None, pos=None, ili=None):
                out = []
                for i in range(g.n):
                    if pos is not None and g.pos[i] != pos:
                        continue
                    if form is not None:
                        found = False
                        for f, nodes in g.words.items() if isinstance(g.words, dict) \
                                else g.words:
                            if f == form and i in nodes:
                                found = True
                        if not found:
                            continue
                    out.append(g._synsets[i])
                return out

            def lexicons(self):
                return [_core.Lexicon('G', 'g', 'en', 'e', 'l', '1', _id=1)]

        self.wordnet = FakeWordnet()
        self._synsets = [_core.Synset(f'n{i}', self.pos[i], None, _lexid=1, _id=i + 1,
                                      _wordnet=self.wordnet) for i in range(self.n)]

        def fake_relations(source_rowids, relation_types, lexicon_rowids):
            g.calls += 1
            if g.calls > g.budget:
                raise Budget()
            types = [t for t in relation_types]
            anyt = (not types) or ('*' in types)
            for src in source_rowids:
                i = src - 1
                for j in range(g.n):
                    if g.adj[i][j]:
                        k = g.kind(i, j)
                        if anyt or k in types:
                            yield (k, 'G:1', None, src, f'n{j}', g.pos[j], None, 1, j + 1)
                for j in range(g.n):
                    if g.adj[j][i]:
                        k = 'instance_hyponym' if g.kind(j, i) == 'instance_hypernym' else 'hyponym'
                        if anyt or k in types:
                            yield (k, 'G:1', None, src, f'n{j}', g.pos[j], None, 1, j + 1)
        _core.get_synset_relations = fake_relations

    # -- real mode ----------------------------------------------------------------
    def resource(self):
        synsets = []
        for i in range(self.n):
            rels = []
            for j in range(self.n):
                if self.adj[i][j]:
                    rels.append({'target': f'n{j}', 'relType': self.kind(i, j), 'meta': None})
            for j in range(self.n):
                if self.adj[j][i]:
                    k = 'instance_hyponym' if self.kind(j, i) == 'instance_hypernym' else 'hyponym'
                    rels.append({'target': f'n{j}', 'relType': k, 'meta': None})
            synsets.append({'id': f'n{i}', 'ili': '', 'partOfSpeech': self.pos[i], 'meta': None,
                            'relations': rels})
        entries = []
        k = 0
        items = self.words.items() if isinstance(self.words, dict) else self.words
        for form, nodes in items:
            for i in nodes:
                k += 1
                entries.append({'id': f'e{k}', 'meta': None,
                                'lemma': {'writtenForm': form, 'partOfSpeech': self.pos[i]},
                                'senses': [{'id': f's{k}', 'synset': f'n{i}', 'meta': None}]})
        return {'lmf_version': '1.0', 'lexicons': [
            {'id': 'G', 'version': '1', 'label': 'g', 'language': 'en', 'email': 'e',
             'license': 'l', 'meta': None, 'entries': entries, 'synsets': synsets}]}

    def _install_real(self):
        import wn
        rt.DB(fresh=False)
        rt.quiet_add(self.resource())
        self.wordnet = wn.Wordnet('G:1', expand='')
        by_id = {s.id: s for s in self.wordnet.synsets()}
        self._synsets = [by_id[f'n{i}'] for i in range(self.n)]


# ---------------------------------------------------------------------------
# reference definitions (independent of wn), over node indexes

def chains(g, x):
    """All maximal simple hypernym chains from x (x itself excluded from the chains and
    never revisited).  [] when x has no hypernym other than itself."""
    def rec(node, visited):
        nexts = [j for j in g.hypers(node) if j not in visited]
        if not nexts:
            return [[]]
        out = []
        for j in nexts:
            for rest in rec(j, visited + [j]):
                out.append([j] + rest)
        return out
    res = rec(x, [x])
    return [] if res == [[]] else res


def ancestors(g, x):
    """x and everything reachable over hypernym edges."""
    seen = [x]
    todo = [x]
    while todo:
        i = todo.pop()
        for j in g.hypers(i):
            if j not in seen:
                seen.append(j)
                todo.append(j)
    return seen


def dist(g, x, y):
    """Length of the shortest hypernym chain from x up to y (None if y is no ancestor)."""
    if x == y:
        return 0
    level = [x]
    seen = [x]
    d = 0
    while level:
        d += 1
        nxt = []
        for i in level:
            for j in g.hypers(i):
                if j == y:
                    return d
                if j not in seen:
                    seen.append(j)
                    nxt.append(j)
        level = nxt
    return None


def is_dag(g):
    for i in range(g.n):
        for j in g.hypers(i):
            if i in ancestors(g, j):
                return False
    return True


def depth_max(g, x):
    """Longest chain from x to a root (DAGs)."""
    best = 0
    for j in g.hypers(x):
        d = 1 + depth_max(g, j)
        if d > best:
            best = d
    return best


def depth_min(g, x):
    hs = g.hypers(x)
    if not hs:
        return 0
    return 1 + min(depth_min(g, j) for j in hs)
