"""Evidence file writer (schema: /root/.vp/EVIDENCE.schema.json)."""
import json
import os

VERIF = os.path.dirname(os.path.dirname(os.path.abspath(__file__)))

COMMON_ASSUMPTIONS = [
    "CPython 3.12 and CrossHair 0.0.110's symbolic model of it; z3 5.1",
    "a verdict 'confirmed' is CrossHair's 'Confirmed over all paths' inside the stated bounds "
    "of the obligation; 'no-counterexample-in-budget' is bug hunting only, not a bounded proof",
    "hash-based containers inside the listed wn modules are replaced by equality-based ones "
    "(vf/transforms.py); iteration order of such sets is insertion order unless the obligation "
    "says ndset",
]


def write(pid, tier, seed, ob_rows, finding_rows, violations, harness_errors, notes, wall,
          assumptions, technique, extra=None):
    main_paths = 0
    confirmed = 0
    samples = []
    for r in ob_rows:
        main_paths += sum(int(p.get('paths') or 0) for p in r.get('partitions', []))
        confirmed += int(r.get('main_confirmed_paths', r.get('confirmed_paths', 0)) or 0)
        for w in (r.get('twin_witnesses') or [])[:2]:
            samples.append({'obligation': r['name'], 'kind': 'input reaching the assertion '
                            '(reachability twin)', 'call': w})
        for c in r.get('canaries') or []:
            if c.get('witness'):
                samples.append({'obligation': r['name'],
                                'kind': f"counterexample found on canary '{c['name']}'",
                                'call': c['witness']})
        for p in r.get('partitions', []):
            if p.get('cex'):
                samples.append({'obligation': r['name'], 'kind': 'counterexample',
                                'call': p['cex'], 'replay': p.get('replay')})
        for s in r.get('samples', []):
            samples.append(s)
    if not samples:
        samples = [{'obligation': r['name'], 'bounds': r['bounds']} for r in ob_rows]
    discharged = sum(1 for r in ob_rows if r['verdict'] == 'confirmed')
    cov = {
        'evaluations': max(main_paths, 0),
        'distinct_nontrivial': confirmed,
        'rule': "a case is one symbolic execution path of a harness over the real wn code "
                "(distinct by construction: a distinct sequence of solver-decided branch "
                "outcomes); it counts as non-trivial when it satisfied the preconditions, ran to "
                "the end and had its postcondition checked by z3 for every value consistent with "
                "the path (CrossHair 'confirmed path'); solver-level obligations count one case "
                "per discharged query. evaluations counts all paths started, including aborted "
                "ones.",
        'samples': samples[:40],
        'traces_validated_against_impl': sum(int(r.get('validated_on_real_code') or 0)
                                             for r in ob_rows),
        'obligations': len(ob_rows),
        'discharged': discharged,
        'exhaustive': bool(ob_rows) and discharged == len(ob_rows),
        'smt_queries': sum(int(r.get('smt_queries') or 0) for r in ob_rows),
        'solver_s': round(sum(float(r.get('solver_s') or 0) for r in ob_rows), 2),
        'technique': technique,
        'obligation_details': ob_rows,
        'known_findings': finding_rows,
        'harness_errors': harness_errors,
        'notes': notes,
        'violation_details': violations,
    }
    if extra:
        cov.update(extra)
    doc = {
        'property_id': pid,
        'tier': tier,
        'seed': int(seed),
        'level': 'model_checking',
        'coverage': cov,
        'assumptions': COMMON_ASSUMPTIONS + list(assumptions),
        'wall_s': round(wall, 2),
        'violations': len(violations),
    }
    d = os.environ.get('VF_EVIDENCE_DIR') or os.path.join(VERIF, 'evidence')
    os.makedirs(d, exist_ok=True)
    tmp = os.path.join(d, f'.{pid}.json.tmp')
    with open(tmp, 'w') as f:
        json.dump(doc, f, indent=1, default=str)
    os.replace(tmp, os.path.join(d, f'{pid}.json'))
