"""Document builders, an independent projection of a document onto what the public API must
report (``project``) and the canonical walk over the public API (``observe``).

``P`` supplies payload values: a field that the harness made symbolic comes from the harness
arguments, every other field gets a distinct concrete default, so each obligation can keep
the number of symbolic strings small while all obligations together cover every field.
"""


class P:
    def __init__(self, sym=None, absent=()):
        self.sym = dict(sym or {})
        self.absent = set(absent)     # optional fields to leave out of the document
        self.used = []

    def __call__(self, name, default=None):
        self.used.append(name)
        if name in self.sym:
            return self.sym[name]
        return default if default is not None else name

    def has(self, name):
        """Is the optional attribute / child *name* present?  (symbolic bool when supplied)"""
        if ('has_' + name) in self.sym:
            return self.sym['has_' + name]
        return name not in self.absent


def meta(p, prefix, keys=('source',)):
    """A metadata dict with the given keys (values from p), or None when switched off."""
    if not p.has(prefix + '_meta'):
        return None
    return {k: p(f'{prefix}_meta_{k}') for k in keys}


def opt(d, key, p, name, default=None):
    if p.has(name):
        d[key] = p(name, default)
    return d


# ---------------------------------------------------------------------------
# skeleton "rich": one lexicon using (almost) every element of WN-LMF

def lexicon_rich(p, lid='L', ver='1', style='1.1', tag=''):
    """style '1.0': entry-level frames; '1.1': lexicon-level frames + subcat, members, lexfile,
    pronunciations, logo, requires.  *tag* prefixes entity ids (to build id clashes or
    distinct lexicons)."""
    t = tag
    new = style != '1.0'
    lex = {'id': lid, 'version': ver, 'label': p(t + 'label'), 'language': p(t + 'language', 'en'),
           'email': p(t + 'email'), 'license': p(t + 'license'), 'meta': meta(p, t + 'lex', ('title', 'source'))}
    opt(lex, 'url', p, t + 'url')
    opt(lex, 'citation', p, t + 'citation')
    if new:
        opt(lex, 'logo', p, t + 'logo')
        if p.has(t + 'requires'):
            dep = {'id': 'R', 'version': '9'}
            opt(dep, 'url', p, t + 'requires_url')
            lex['requires'] = [dep]
    # entry 1
    lemma1 = {'writtenForm': p(t + 'w1', 'w1'), 'partOfSpeech': p(t + 'pos1', 'n')}
    opt(lemma1, 'script', p, t + 'script1')
    if p.has(t + 'lemma_tag'):
        lemma1['tags'] = [{'text': p(t + 'tag1'), 'category': p(t + 'tagcat1')}]
    if new and p.has(t + 'lemma_pron'):
        pr = {'text': p(t + 'pron1')}
        opt(pr, 'variety', p, t + 'pron_variety')
        opt(pr, 'notation', p, t + 'pron_notation')
        opt(pr, 'audio', p, t + 'pron_audio')
        if p.has(t + 'pron_phonemic'):
            pr['phonemic'] = p(t + 'pron_phonemic_v', False)
        lemma1['pronunciations'] = [pr]
    form1 = {'writtenForm': p(t + 'f1', 'f1')}
    if new:
        opt(form1, 'id', p, t + 'fid1', t + 'fid1')
    opt(form1, 'script', p, t + 'fscript1')
    if p.has(t + 'form_tag'):
        form1['tags'] = [{'text': p(t + 'ftag1'), 'category': p(t + 'ftagcat1')},
                         {'text': p(t + 'ftag2'), 'category': p(t + 'ftagcat2')}]
    s1 = {'id': t + 's1', 'synset': t + 'ss1', 'meta': meta(p, t + 's1')}
    if p.has(t + 's1_rel'):
        s1['relations'] = [
            {'target': t + 's2', 'relType': p(t + 'srel_type', 'antonym'),
             'meta': meta(p, t + 'srel', ('type',))},
            {'target': t + 'ss2', 'relType': p(t + 'ssrel_type', 'domain_topic'), 'meta': None}]
    if p.has(t + 's1_ex'):
        ex = {'text': p(t + 'sx1'), 'meta': meta(p, t + 'sx1')}
        opt(ex, 'language', p, t + 'sx1_lang')
        s1['examples'] = [ex, {'text': p(t + 'sx2'), 'meta': None}]
    if p.has(t + 's1_count'):
        s1['counts'] = [{'value': p(t + 'count1', 3), 'meta': meta(p, t + 'count1')},
                        {'value': p(t + 'count2', 5), 'meta': None}]
    opt(s1, 'adjposition', p, t + 'adjposition', 'a')
    if p.has(t + 's1_lexicalized'):
        s1['lexicalized'] = p(t + 's1_lexicalized_v', False)
    s2 = {'id': t + 's2', 'synset': t + 'ss2', 'meta': None}
    form2 = {'writtenForm': p(t + 'f2', 'f2')}
    if new:
        form2['id'] = t + 'fid2'
    e1 = {'id': t + 'e1', 'lemma': lemma1, 'forms': [form1, form2], 'senses': [s1, s2],
          'meta': meta(p, t + 'e1')}
    # entry 2 (a second word in synset ss1; listed first among its members)
    e2 = {'id': t + 'e2', 'lemma': {'writtenForm': p(t + 'w2', 'w2'), 'partOfSpeech': p(t + 'pos2', 'v')},
          'senses': [{'id': t + 's3', 'synset': t + 'ss1', 'meta': None}], 'meta': None}
    frames = [{'subcategorizationFrame': p(t + 'frame1', 'fr one'), 'senses': [t + 's1', t + 's3']},
              {'subcategorizationFrame': p(t + 'frame2', 'fr two')}]
    if new:
        if p.has(t + 'frames'):
            lex['frames'] = [{'id': t + 'fr1', 'subcategorizationFrame': frames[0]['subcategorizationFrame']},
                             {'subcategorizationFrame': frames[1]['subcategorizationFrame']}]
            if not p.has(t + 'frame_id2'):
                pass
            else:
                lex['frames'][1]['id'] = t + 'fr2'
                s2['subcat'] = [t + 'fr2']
            s1['subcat'] = [t + 'fr1'] + ([t + 'fr2'] if p.has(t + 'frame_id2') else [])
            if p.sym.get('has_' + t + 'frame_senses', False):
                # a lexicon-level frame that lists a sense itself *and* is referenced by subcat
                lex['frames'][0]['senses'] = [t + 's3']
            else:
                e2['senses'][0]['subcat'] = [t + 'fr1']
    else:
        if p.has(t + 'frames'):
            # 1.0: frame 1 names its senses, frame 2 applies to all senses of the entry
            e1['frames'] = [{'subcategorizationFrame': frames[0]['subcategorizationFrame'],
                             'senses': [t + 's1']},
                            {'subcategorizationFrame': frames[1]['subcategorizationFrame']},
                            {'subcategorizationFrame': p(t + 'frame3', 'fr three')}]
            if p.has(t + 'frames_e2'):
                # a later entry repeats a frame string (frames are unique per lexicon)
                e2['frames'] = [{'subcategorizationFrame': frames[1]['subcategorizationFrame']}]
    # synsets
    ss1 = {'id': t + 'ss1', 'ili': p(t + 'ili1', 'i1'), 'partOfSpeech': p(t + 'sspos1', 'n'),
           'meta': meta(p, t + 'ss1')}
    if p.has(t + 'ss1_defs'):
        d1 = {'text': p(t + 'def1'), 'meta': meta(p, t + 'def1')}
        opt(d1, 'language', p, t + 'def1_lang')
        if p.has(t + 'def1_source'):
            d1['sourceSense'] = t + 's1'
        ss1['definitions'] = [d1, {'text': p(t + 'def2'), 'meta': None}]
    if p.has(t + 'ss1_ilidef'):
        ss1['ili_definition'] = {'text': p(t + 'ilidef1'), 'meta': meta(p, t + 'ilidef1')}
    if p.has(t + 'ss1_rel'):
        ss1['relations'] = [{'target': t + 'ss2', 'relType': p(t + 'ssr_type', 'hypernym'),
                             'meta': meta(p, t + 'ssr', ('type',))}]
    if p.has(t + 'ss1_ex'):
        ex = {'text': p(t + 'ssx1'), 'meta': meta(p, t + 'ssx1')}
        opt(ex, 'language', p, t + 'ssx1_lang')
        ss1['examples'] = [ex]
    if p.has(t + 'ss1_lexicalized'):
        ss1['lexicalized'] = p(t + 'ss1_lexicalized_v', False)
    if new:
        if p.has(t + 'members'):
            ss1['members'] = [t + 's3', t + 's1']
        opt(ss1, 'lexfile', p, t + 'lexfile1', 'noun.x')
    ss2 = {'id': t + 'ss2', 'ili': 'in', 'partOfSpeech': p(t + 'sspos2', 'n'), 'meta': None}
    if p.has(t + 'ss2_ilidef'):
        ss2['ili_definition'] = {'text': p(t + 'ilidef2'), 'meta': meta(p, t + 'ilidef2')}
    ss3 = {'id': t + 'ss3', 'ili': '', 'partOfSpeech': p(t + 'sspos3', 'a'), 'meta': None}
    lex['entries'] = [e1, e2]
    lex['synsets'] = [ss1, ss2, ss3]
    return lex


def resource(lexicons, version='1.1'):
    return {'lmf_version': version, 'lexicons': list(lexicons)}


def extension_rich(p, lid='X', ver='1', base=('L', '1'), tag='x', btag=''):
    """An extension of lexicon_rich(tag=btag) using every documented extension pattern."""
    t, b = tag, btag
    ext = {'id': lid, 'version': ver, 'label': p(t + 'label'), 'language': p(t + 'language', 'en'),
           'email': p(t + 'email'), 'license': p(t + 'license'), 'meta': None,
           'extends': {'id': base[0], 'version': base[1]}}
    # external entry e1: tag on external lemma, tag+pron on external form (by id), new sense,
    # example/count/relation on external sense
    xl = {'external': True}
    if p.has(t + 'xlemma_tag'):
        xl['tags'] = [{'text': p(t + 'xtag1'), 'category': p(t + 'xtagcat1')}]
    xf = {'external': True, 'id': b + 'fid2'}   # the base entry's *second* form
    if p.has(t + 'xform_tag'):
        xf['tags'] = [{'text': p(t + 'xftag1'), 'category': p(t + 'xftagcat1')}]
    # pronunciations on the external lemma / form (only when asked for explicitly)
    if p.sym.get('has_' + t + 'xlemma_pron', False):
        xl['pronunciations'] = [{'text': p(t + 'xpron1'), 'phonemic': False}]
    if p.sym.get('has_' + t + 'xform_pron', False):
        xf['pronunciations'] = [{'text': p(t + 'xfpron1'), 'variety': 'v',
                                 'phonemic': p(t + 'xfpron_phonemic', False)}]
    xs1 = {'external': True, 'id': b + 's1'}
    if p.has(t + 'xs_ex'):
        xs1['examples'] = [{'text': p(t + 'xsx1'), 'meta': None}]
    if p.has(t + 'xs_count'):
        xs1['counts'] = [{'value': p(t + 'xcount1', 7), 'meta': None}]
    if p.has(t + 'xs_rel'):
        xs1['relations'] = [{'target': t + 's9', 'relType': p(t + 'xsrel_type', 'also'), 'meta': None}]
    new_sense = {'id': t + 's9', 'synset': t + 'ss9', 'meta': None}     # new sense on base entry
    xe1 = {'external': True, 'id': b + 'e1', 'lemma': xl, 'forms': [xf],
           'senses': [xs1, new_sense]}
    # a new entry whose sense attaches to a base synset
    ne = {'id': t + 'e8', 'lemma': {'writtenForm': p(t + 'w8', 'w8'), 'partOfSpeech': 'n'},
          'senses': [{'id': t + 's8', 'synset': b + 'ss2', 'meta': None}], 'meta': None}
    # external synset with new definition / example / relation; new synset
    xss = {'external': True, 'id': b + 'ss1'}
    if p.has(t + 'xss_def'):
        xss['definitions'] = [{'text': p(t + 'xdef1'), 'meta': None}]
    if p.has(t + 'xss_ex'):
        xss['examples'] = [{'text': p(t + 'xssx1'), 'meta': None}]
    if p.has(t + 'xss_rel'):
        xss['relations'] = [{'target': t + 'ss9', 'relType': p(t + 'xssr_type', 'hyponym'), 'meta': None}]
    xss2 = {'external': True, 'id': b + 'ss2'}
    nss = {'id': t + 'ss9', 'ili': p(t + 'ili9', 'i9'), 'partOfSpeech': 'n', 'meta': None,
           'relations': [{'target': b + 'ss1', 'relType': 'hypernym', 'meta': None}]}
    ext['entries'] = [xe1, ne]
    ext['synsets'] = [xss, xss2, nss]
    return ext


def lexicon_small(p, lid, ver='1', tag='', ili='i1', requires=None, language='en', ili2='',
                  two=False):
    """A two-synset lexicon (used where several lexicons are needed).  two=True adds a second
    entry whose sense is a further member of synset ss1."""
    t = tag
    lex = {'id': lid, 'version': ver, 'label': p(t + 'label', lid + ' label'), 'language': language,
           'email': 'e', 'license': 'l', 'meta': None,
           'entries': [{'id': t + 'e1', 'meta': None,
                        'lemma': {'writtenForm': p(t + 'w1', 'w1'), 'partOfSpeech': 'n'},
                        'senses': [{'id': t + 's1', 'synset': t + 'ss1', 'meta': None,
                                    'relations': [{'target': t + 'ss2', 'relType': 'domain_topic',
                                                   'meta': None}]}]}],
           'synsets': [{'id': t + 'ss1', 'ili': ili, 'partOfSpeech': 'n', 'meta': None,
                        'definitions': [{'text': p(t + 'def1', t + 'def1'), 'meta': None}],
                        'relations': [{'target': t + 'ss2', 'relType': 'hypernym', 'meta': None}]},
                       {'id': t + 'ss2', 'ili': ili2, 'partOfSpeech': 'n', 'meta': None}]}
    if two:
        lex['entries'].append({'id': t + 'e2', 'meta': None,
                               'lemma': {'writtenForm': p(t + 'w2', 'w2'), 'partOfSpeech': 'n'},
                               'senses': [{'id': t + 's2', 'synset': t + 'ss1', 'meta': None},
                                          {'id': t + 's3', 'synset': t + 'ss2', 'meta': None}]})
    if requires:
        lex['requires'] = [dict(r) for r in requires]
    return lex


# ---------------------------------------------------------------------------
# projection: what the API must report for a lexicon of a document (independent of wn)

def _md(m):
    return [(k, m[k]) for k in sorted(m)] if m else []


def _local(xs):
    return [x for x in xs if not x.get('external')]


def project_lexicon(lex, base=None, forms_realised=True):
    """Expected observation of one non-extension lexicon *lex* (optionally as extended by the
    extension *base* ... not used here).  Mirrors observe_lexicon()."""
    out = {}
    out['lexicon'] = [lex['id'], lex['label'], lex['language'], lex['email'], lex['license'],
                      lex['version'], lex.get('url'), lex.get('citation'), lex.get('logo'),
                      _md(lex.get('meta')),
                      [(d['id'] + ':' + d['version']) for d in lex.get('requires', [])]]
    senses_by_id = {}
    entry_of = {}
    for e in lex.get('entries', []):
        for s in e.get('senses', []):
            senses_by_id[s['id']] = s
            entry_of[s['id']] = e['id']
    sense_ids = list(senses_by_id)
    synset_ids = [ss['id'] for ss in lex.get('synsets', [])]
    # frames per sense
    frames = {sid: [] for sid in sense_ids}
    id2frame = {}
    for fr in lex.get('frames', []):
        if fr.get('id'):
            id2frame[fr['id']] = fr['subcategorizationFrame']
        for sid in fr.get('senses', []):
            frames[sid].append(fr['subcategorizationFrame'])
    for e in lex.get('entries', []):
        for s in e.get('senses', []):
            for fid in s.get('subcat', []):
                frames[s['id']].append(id2frame[fid])
        for fr in e.get('frames', []):
            targets = fr.get('senses') or [s['id'] for s in e.get('senses', [])]
            for sid in targets:
                frames[sid].append(fr['subcategorizationFrame'])
    words = []
    for e in lex.get('entries', []):
        lem = e['lemma']
        fl = [[lem['writtenForm'], None, lem.get('script'),
               [(t['text'], t['category']) for t in lem.get('tags', [])],
               [_pron(x) for x in lem.get('pronunciations', [])]]]
        for f in e.get('forms', []):
            fl.append([f['writtenForm'], f.get('id'), f.get('script'),
                       [(t['text'], t['category']) for t in f.get('tags', [])],
                       [_pron(x) for x in f.get('pronunciations', [])]])
        words.append([e['id'], lem['partOfSpeech'], fl, _md(e.get('meta')),
                      [s['id'] for s in e.get('senses', [])]])
    out['words'] = words
    senses = []
    for e in lex.get('entries', []):
        for s in e.get('senses', []):
            rels = []
            for r in s.get('relations', []):
                kind = 'sense' if r['target'] in senses_by_id else 'synset'
                rels.append([kind, r['relType'], r['target'], _md(r.get('meta'))])
            senses.append([s['id'], e['id'], s['synset'],
                           [x['text'] for x in s.get('examples', [])],
                           [(c['value'], _md(c.get('meta'))) for c in s.get('counts', [])],
                           sorted(frames[s['id']]),
                           s.get('adjposition') or None,
                           s.get('lexicalized', True),
                           _md(s.get('meta')), rels])
    out['senses'] = senses
    synsets = []
    for ss in lex.get('synsets', []):
        ili = ss['ili']
        if ili == 'in':
            d = ss.get('ili_definition')
            ili_obs = [None, 'proposed', d['text'] if d else None, _md(d.get('meta')) if d else []]
        elif ili:
            d = ss.get('ili_definition')
            ili_obs = [ili, 'presupposed', d['text'] if d else None, _md(d.get('meta')) if d else []]
        else:
            ili_obs = None
        members = [sid for sid in ss.get('members', []) if sid in senses_by_id]
        rest = [sid for sid in sense_ids
                if senses_by_id[sid]['synset'] == ss['id'] and sid not in members]
        defs = ss.get('definitions', [])
        synsets.append([ss['id'], ss.get('partOfSpeech'), ili_obs,
                        defs[0]['text'] if defs else None,
                        [x['text'] for x in ss.get('examples', [])],
                        ss.get('lexfile') or None,
                        ss.get('lexicalized', True),
                        members + rest,
                        _md(ss.get('meta')),
                        [[r['relType'], r['target'], _md(r.get('meta'))]
                         for r in ss.get('relations', [])]])
    out['synsets'] = synsets
    return out


def _pron(x):
    return [x['text'], x.get('variety'), x.get('notation'), x.get('phonemic', True), x.get('audio')]


# ---------------------------------------------------------------------------
# observation through the public API

def observe_lexicon(wn, spec, raw_forms=False):
    """Walk the public API of ``wn.Wordnet(spec)`` (a single lexicon) in a canonical order."""
    w = wn.Wordnet(spec, expand='')
    lx = w.lexicons()[0]
    out = {}
    out['lexicon'] = [lx.id, lx.label, lx.language, lx.email, lx.license, lx.version, lx.url,
                      lx.citation, lx.logo, _md(lx.metadata()), [k for k in lx.requires()]]
    words = []
    senses = []
    for word in w.words():
        fl = []
        for f in word.forms():
            fl.append([str(f) if not raw_forms else f, f.id, f.script,
                       [(t.tag, t.category) for t in f.tags()],
                       [[x.value, x.variety, x.notation, x.phonemic, x.audio]
                        for x in f.pronunciations()]])
        wsenses = word.senses()
        words.append([word.id, word.pos, fl, _md(word.metadata()), [s.id for s in wsenses]])
        for s in wsenses:
            rels = []
            for rel, tgt in s.relation_map().items():
                rels.append(['sense', rel.name, tgt.id, _md(rel.metadata())])
            for rel, tgt in s._iter_sense_synset_relations():
                rels.append(['synset', rel.name, tgt.id, _md(rel.metadata())])
            senses.append([s.id, s.word().id, s.synset().id, s.examples(),
                           [(int(c), _md(c.metadata())) for c in s.counts()],
                           sorted(s.frames()), s.adjposition(), s.lexicalized(),
                           _md(s.metadata()), rels])
    out['words'] = words
    out['senses'] = senses
    synsets = []
    for ss in w.synsets():
        ili = ss.ili
        ili_obs = None if ili is None else [ili.id, ili.status, ili.definition(),
                                            _md(ili.metadata())]
        synsets.append([ss.id, ss.pos, ili_obs, ss.definition(), ss.examples(), ss.lexfile(),
                        ss.lexicalized(), [s.id for s in ss.senses()], _md(ss.metadata()),
                        [[rel.name, tgt.id, _md(rel.metadata())]
                         for rel, tgt in ss.relation_map().items()]])
    out['synsets'] = synsets
    return out


def first_difference(a, b, path=''):
    """Human-readable location of the first difference between two observations."""
    if type(a) is not type(b) and not (isinstance(a, (list, tuple)) and isinstance(b, (list, tuple))):
        return f'{path}: {a!r} != {b!r}'
    if isinstance(a, dict):
        for k in a:
            if k not in b:
                return f'{path}.{k}: missing'
            d = first_difference(a[k], b[k], f'{path}.{k}')
            if d:
                return d
        return None
    if isinstance(a, (list, tuple)):
        if len(a) != len(b):
            return f'{path}: length {len(a)} != {len(b)}: {a!r} != {b!r}'
        for i, (x, y) in enumerate(zip(a, b)):
            d = first_difference(x, y, f'{path}[{i}]')
            if d:
                return d
        return None
    return None if a == b else f'{path}: {a!r} != {b!r}'


def extension_small(p, lid, ver='1', base=('B', '1'), tag='x', btag='', second=True):
    """A small extension of lexicon_small(tag=btag): a new entry whose sense attaches to a
    base synset, a tag on the base lemma, a relation and an example on external entities."""
    t, b = tag, btag
    return {'id': lid, 'version': ver, 'label': p(t + 'label', lid + ' label'), 'language': 'en',
            'email': 'e', 'license': 'l', 'meta': None,
            'extends': {'id': base[0], 'version': base[1]},
            'entries': [
                {'external': True, 'id': b + 'e1',
                 'lemma': {'external': True, 'tags': [{'text': p(t + 'tag', t + 'tag'),
                                                       'category': 'c'}]},
                 'senses': [{'external': True, 'id': b + 's1',
                             'examples': [{'text': p(t + 'sx', t + 'sx'), 'meta': None}]}]},
                {'id': t + 'e1', 'meta': None,
                 'lemma': {'writtenForm': p(t + 'w1', t + 'w1'), 'partOfSpeech': 'n'},
                 'senses': [{'id': t + 's1', 'synset': b + 'ss1', 'meta': None}]}],
            'synsets': [
                {'external': True, 'id': b + 'ss1'},
                {'external': True, 'id': b + ('ss2' if second else 'ss1'),
                 'relations': [{'target': t + 'ss1', 'relType': 'hyponym', 'meta': None}]},
                {'id': t + 'ss1', 'ili': '', 'partOfSpeech': 'n', 'meta': None,
                 'relations': [{'target': b + ('ss2' if second else 'ss1'), 'relType': 'hypernym',
                                'meta': None}]}][(0 if second else 1):]}
