"""pytest plugin: run the repository's own test-suite against vf.sqlmodel (and, with
VF_HOOK=1, under the de-hash import hook).  Semantic-preservation gate for both."""
import os

if os.environ.get('VF_HOOK') == '1':
    os.environ['VF_MODE'] = 'sym'
    from vf import transforms
    transforms.install(shadow_hash=False)

import wn  # noqa: E402
import wn._db  # noqa: E402
import wn._queries  # noqa: E402
import wn._add  # noqa: E402
from vf import sqlmodel as SM  # noqa: E402

_DBS = {}


def _connect():
    p = str(wn.config.database_path)
    if p not in _DBS:
        _DBS[p] = SM.MConn()
    return _DBS[p]


for _mod in (wn._db, wn._queries, wn._add):
    _mod.connect = _connect
