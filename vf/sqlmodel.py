"""Executable semantics of the SQLite subset that goodmami/wn uses.

The real ``wn._queries`` / ``wn._add`` / ``wn._export`` functions run and produce their SQL
strings and parameters; this module executes those strings instead of SQLite, in pure
Python, so that CrossHair can run the whole thing with symbolic cell values.

Supported: WITH [RECURSIVE] cte(cols) AS (VALUES..|SELECT..[UNION SELECT..]), SELECT
[DISTINCT], FROM t [AS a] {JOIN t|(SELECT..) AS a ON e}, WHERE, ORDER BY, LIMIT, expressions
(= <> != < <= > >= || + - AND OR NOT ISNULL NOTNULL IS [NOT] NULL IN (list|select|cte) GLOB,
scalar sub-selects, ?, :name, literals), INSERT [OR IGNORE] INTO t VALUES (..) [ON
CONFLICT(col) DO UPDATE SET .. [WHERE ..]], UPDATE, DELETE, CASE, PRAGMA foreign_keys.  Anything else raises
``ModelError`` (a harness error: "encoding out of date"), never a silent pass.

Schema (columns, NOT NULL, PRIMARY KEY, UNIQUE, foreign keys with ON DELETE action) is read
from the real ``wn/schema.sql`` through an in-memory sqlite3 and PRAGMAs.

Not modelled: CHECK constraints, type affinity conversions, collations other than BINARY,
SQLite's query-plan dependent row order (see ``ORDER_FLIP``).
"""
import os
import re
import sqlite3

try:  # CrossHair present: run the interpreter natively, resume tracing only where a
    # symbolic value is actually inspected (10x fewer traced opcodes per path)
    from crosshair.tracers import NoTracing, ResumedTracing, is_tracing
except Exception:  # noqa: BLE001 - plain Python (replay / self-test)
    NoTracing = ResumedTracing = None

    def is_tracing():
        return False

FAST = os.environ.get('VF_SQL_FAST', '1') == '1'
_CONCRETE = (int, str, bool, type(None), float, dict, bytes)


def _sym(v):
    """Not a plain Python value (i.e. a CrossHair proxy).  Only meaningful while tracing
    is off, where type() is the real builtin."""
    return type(v) not in _CONCRETE


def _b(fn, *vals):
    """Evaluate fn(*vals) to a concrete result; with tracing resumed when a value is
    symbolic (the solver may fork the path here)."""
    if NoTracing is not None and not is_tracing():
        for v in vals:
            if _sym(v):
                with ResumedTracing():
                    return fn(*vals)
    return fn(*vals)


def _eq(a, b):
    return _b(lambda x, y: bool(x == y), a, b)


def _roweq(r, s):
    if len(r) != len(s):
        return False
    for x, y in zip(r, s):
        if not _eq(x, y):
            return False
    return True


IntegrityError = sqlite3.IntegrityError
OperationalError = sqlite3.OperationalError


class ModelError(Exception):
    """The model cannot interpret a statement (encoding out of date)."""


# ---------------------------------------------------------------------------
# tokenizer / parser

_TOK = re.compile(r'''\s*(?:(?P<num>\d+)|(?P<str>'(?:[^']|'')*'|"(?:[^"]|"")*")|(?P<par>\?|:\w+)'''
                  r'''|(?P<op>\|\||<=|>=|<>|!=|[=<>(),.*+\-])|(?P<id>[A-Za-z_][A-Za-z_0-9]*))''')
_KW = {'SELECT', 'DISTINCT', 'FROM', 'JOIN', 'ON', 'WHERE', 'AND', 'OR', 'NOT', 'IN', 'AS',
       'ORDER', 'BY', 'LIMIT', 'WITH', 'VALUES', 'NULL', 'ISNULL', 'NOTNULL', 'IS', 'GLOB',
       'RECURSIVE', 'UNION', 'INSERT', 'INTO', 'IGNORE', 'UPDATE', 'SET', 'DELETE', 'PRAGMA',
       'CONFLICT', 'DO', 'REPLACE', 'ASC', 'DESC', 'LEFT', 'INNER', 'OUTER', 'GROUP', 'HAVING',
       'ALL', 'EXISTS', 'CASE', 'WHEN', 'THEN', 'ELSE', 'END', 'LIKE', 'BETWEEN', 'OFFSET', 'EXCEPT',
       'INTERSECT'}
_UNSUPPORTED = {'LEFT', 'OUTER', 'GROUP', 'HAVING', 'EXISTS', 'LIKE', 'BETWEEN',
                'OFFSET', 'EXCEPT', 'INTERSECT', 'REPLACE', 'ALL'}


def tokenize(s):
    out, i = [], 0
    s = s.strip().rstrip(';').strip()
    while i < len(s):
        m = _TOK.match(s, i)
        if not m or m.end() == i:
            raise ModelError('cannot tokenize: ' + s[i:i + 40])
        i = m.end()
        k = m.lastgroup
        v = m.group(k)
        if k == 'id' and v.upper() in _KW:
            if v.upper() in _UNSUPPORTED:
                raise ModelError('unsupported SQL keyword: ' + v)
            out.append(('kw', v.upper()))
        else:
            out.append((k, v))
    return out


class _P:
    def __init__(self, toks):
        self.t, self.i, self.npar = toks, 0, 0

    def peek(self, k=0):
        return self.t[self.i + k] if self.i + k < len(self.t) else ('eof', '')

    def eat(self, kind=None, val=None):
        t = self.peek()
        if (kind and t[0] != kind) or (val and t[1] != val):
            raise ModelError(f'expected {kind} {val} got {t} at token {self.i}')
        self.i += 1
        return t

    def at(self, kind, val=None):
        t = self.peek()
        return t[0] == kind and (val is None or t[1] == val)

    # -- statements ------------------------------------------------------
    def top(self):
        if self.at('kw', 'PRAGMA'):
            rest = [str(t[1]) for t in self.t[self.i + 1:]]
            self.i = len(self.t)
            name = rest[0].lower() if rest else ''
            value = rest[2].upper() if len(rest) >= 3 and rest[1] == '=' else None
            return ('pragma', name, value)
        if self.at('kw', 'INSERT'):
            return self.insert()
        if self.at('kw', 'UPDATE'):
            return self.update()
        if self.at('kw', 'DELETE'):
            self.eat()
            self.eat('kw', 'FROM')
            t = self.eat('id')[1]
            w = None
            if self.at('kw', 'WHERE'):
                self.eat()
                w = self.expr()
            return ('delete', t, w)
        return self.stmt()

    def insert(self):
        self.eat()
        ignore = False
        if self.at('kw', 'OR'):
            self.eat()
            self.eat('kw', 'IGNORE')
            ignore = True
        self.eat('kw', 'INTO')
        t = self.eat('id')[1]
        self.eat('kw', 'VALUES')
        self.eat('op', '(')
        vals = [self.expr()]
        while self.at('op', ','):
            self.eat()
            vals.append(self.expr())
        self.eat('op', ')')
        upd = None
        if self.at('kw', 'ON'):
            self.eat()
            self.eat('kw', 'CONFLICT')
            self.eat('op', '(')
            ccol = self.eat('id')[1]
            self.eat('op', ')')
            self.eat('kw', 'DO')
            self.eat('kw', 'UPDATE')
            self.eat('kw', 'SET')
            sets = self.setlist()
            uw = None
            if self.at('kw', 'WHERE'):
                self.eat()
                uw = self.expr()
            upd = (ccol, sets, uw)
        return ('insert', t, vals, ignore, upd)

    def setlist(self):
        sets = []
        while True:
            c = self.eat('id')[1]
            self.eat('op', '=')
            sets.append((c, self.expr()))
            if not self.at('op', ','):
                return sets
            self.eat()

    def update(self):
        self.eat()
        t = self.eat('id')[1]
        self.eat('kw', 'SET')
        sets = self.setlist()
        w = None
        if self.at('kw', 'WHERE'):
            self.eat()
            w = self.expr()
        return ('update', t, sets, w)

    def stmt(self):
        ctes = []
        if self.at('kw', 'WITH'):
            self.eat()
            if self.at('kw', 'RECURSIVE'):
                self.eat()
            while True:
                name = self.eat('id')[1]
                self.eat('op', '(')
                cols = [self.eat('id')[1]]
                while self.at('op', ','):
                    self.eat()
                    cols.append(self.eat('id')[1])
                self.eat('op', ')')
                self.eat('kw', 'AS')
                self.eat('op', '(')
                if self.at('kw', 'VALUES'):
                    self.eat()
                    rows = []
                    if not self.at('op', ')'):
                        while True:
                            self.eat('op', '(')
                            row = [self.expr()]
                            while self.at('op', ','):
                                self.eat()
                                row.append(self.expr())
                            rows.append(row)
                            self.eat('op', ')')
                            if not self.at('op', ','):
                                break
                            self.eat()
                    else:
                        raise ModelError('empty VALUES list is a syntax error in SQLite')
                    body = ('values', rows)
                else:
                    body = self.select()
                    if self.at('kw', 'UNION'):
                        self.eat()
                        body = ('recursive', body, self.select())
                self.eat('op', ')')
                ctes.append((name, cols, body))
                if not self.at('op', ','):
                    break
                self.eat()
        sel = self.select()
        return ('stmt', ctes, sel)

    def select(self):
        self.eat('kw', 'SELECT')
        distinct = False
        if self.at('kw', 'DISTINCT'):
            self.eat()
            distinct = True
        items = [self.selitem()]
        while self.at('op', ','):
            self.eat()
            items.append(self.selitem())
        sources = []
        if self.at('kw', 'FROM'):
            self.eat()
            sources.append((self.source(), None))
            while self.at('kw', 'JOIN') or self.at('kw', 'INNER'):
                if self.at('kw', 'INNER'):
                    self.eat()
                self.eat('kw', 'JOIN')
                src = self.source()
                on = None
                if self.at('kw', 'ON'):
                    self.eat()
                    on = self.expr()
                sources.append((src, on))
        where = None
        if self.at('kw', 'WHERE'):
            self.eat()
            where = self.expr()
        order = []
        if self.at('kw', 'ORDER'):
            self.eat()
            self.eat('kw', 'BY')
            while True:
                e = self.expr()
                desc = False
                if self.at('kw', 'ASC'):
                    self.eat()
                elif self.at('kw', 'DESC'):
                    self.eat()
                    desc = True
                order.append((e, desc))
                if not self.at('op', ','):
                    break
                self.eat()
        limit = None
        if self.at('kw', 'LIMIT'):
            self.eat()
            limit = self.expr()
        return ('select', distinct, items, sources, where, order, limit)

    def selitem(self):
        if self.at('op', '*'):
            self.eat()
            return (('star',), None)
        e = self.expr()
        if self.at('kw', 'AS'):
            self.eat()
            return (e, self.eat('id')[1])
        return (e, None)

    def source(self):
        if self.at('op', '('):
            self.eat()
            s = self.select()
            self.eat('op', ')')
            self.eat('kw', 'AS')
            return ('sub', s, self.eat('id')[1])
        name = self.eat('id')[1]
        alias = name
        if self.at('kw', 'AS'):
            self.eat()
            alias = self.eat('id')[1]
        return ('tab', name, alias)

    # -- expressions -------------------------------------------------------
    def expr(self):
        left = self.andx()
        while self.at('kw', 'OR'):
            self.eat()
            left = ('or', left, self.andx())
        return left

    def andx(self):
        left = self.notx()
        while self.at('kw', 'AND'):
            self.eat()
            left = ('and', left, self.notx())
        return left

    def notx(self):
        if self.at('kw', 'NOT'):
            self.eat()
            return ('not', self.notx())
        return self.cmp()

    def cmp(self):
        left = self.add()
        while True:
            if self.at('op') and self.peek()[1] in ('=', '<', '<=', '>', '>=', '<>', '!='):
                op = self.eat()[1]
                left = ('cmp', op, left, self.add())
            elif self.at('kw', 'ISNULL'):
                self.eat()
                left = ('isnull', left)
            elif self.at('kw', 'NOTNULL'):
                self.eat()
                left = ('not', ('isnull', left))
            elif self.at('kw', 'IS'):
                self.eat()
                neg = False
                if self.at('kw', 'NOT'):
                    self.eat()
                    neg = True
                self.eat('kw', 'NULL')
                left = ('isnull', left)
                if neg:
                    left = ('not', left)
            elif self.at('kw', 'GLOB'):
                self.eat()
                left = ('glob', left, self.add())
            elif self.at('kw', 'IN') or (self.at('kw', 'NOT') and self.peek(1) == ('kw', 'IN')):
                neg = False
                if self.at('kw', 'NOT'):
                    self.eat()
                    neg = True
                self.eat()
                if self.at('id'):
                    node = ('in_tab', left, self.eat()[1])
                else:
                    self.eat('op', '(')
                    if self.at('kw', 'SELECT'):
                        s = self.select()
                        self.eat('op', ')')
                        node = ('in_sel', left, s)
                    else:
                        xs = []
                        if not self.at('op', ')'):
                            xs.append(self.expr())
                            while self.at('op', ','):
                                self.eat()
                                xs.append(self.expr())
                        self.eat('op', ')')
                        node = ('in_list', left, xs)
                left = ('not', node) if neg else node
            else:
                return left

    def add(self):
        left = self.cat()
        while self.at('op') and self.peek()[1] in ('+', '-'):
            op = self.eat()[1]
            left = ('arith', op, left, self.cat())
        return left

    def cat(self):
        left = self.atom()
        while self.at('op', '||'):
            self.eat()
            left = ('cat', left, self.atom())
        return left

    def atom(self):
        t = self.peek()
        if t[0] == 'par':
            self.eat()
            if t[1] == '?':
                self.npar += 1
                return ('par', self.npar - 1)
            return ('npar', t[1][1:])
        if t[0] == 'num':
            self.eat()
            return ('lit', int(t[1]))
        if t == ('op', '-') and self.peek(1)[0] == 'num':
            self.eat()
            n = self.eat()
            return ('lit', -int(n[1]))
        if t == ('op', '-'):
            self.eat()
            return ('arith', '-', ('lit', 0), self.atom())
        if t == ('kw', 'CASE'):
            self.eat()
            base = None if self.at('kw', 'WHEN') else self.expr()
            arms = []
            while self.at('kw', 'WHEN'):
                self.eat()
                c = self.expr()
                self.eat('kw', 'THEN')
                arms.append((c, self.expr()))
            other = ('lit', None)
            if self.at('kw', 'ELSE'):
                self.eat()
                other = self.expr()
            self.eat('kw', 'END')
            return ('case', base, arms, other)
        if t[0] == 'str':
            self.eat()
            q = t[1][0]
            return ('lit', t[1][1:-1].replace(q + q, q))
        if t == ('kw', 'NULL'):
            self.eat()
            return ('lit', None)
        if t[0] == 'op' and t[1] == '(':
            self.eat()
            if self.at('kw', 'SELECT'):
                s = self.select()
                self.eat('op', ')')
                return ('scalar', s)
            e = self.expr()
            self.eat('op', ')')
            return e
        if t[0] == 'id':
            self.eat()
            if self.at('op', '.'):
                self.eat()
                return ('col', t[1], self.eat('id')[1])
            if self.at('op', '('):
                raise ModelError('SQL function calls are not modelled: ' + t[1])
            return ('col', None, t[1])
        raise ModelError(f'unexpected token {t}')


_cache = {}


def parse(sql):
    a = _cache.get(sql)
    if a is None:
        p = _P(tokenize(sql))
        a = p.top()
        if p.peek()[0] != 'eof':
            raise ModelError(f'trailing tokens from {p.peek()} in: {sql[:80]}')
        _cache[sql] = a
    return a


# ---------------------------------------------------------------------------
# evaluation

#: When not None: a list consumed by SELECTs without ORDER BY; a true entry reverses the
#: rows of that result (SQLite leaves the order unspecified).  Harnesses fill it with
#: symbolic bools to make "first row" consumers order-adversarial.
ORDER_FLIP = None


def _truth(v):
    return v is not None and _b(bool, v)


def _glob(pat, text):
    """SQLite GLOB: * ? [...] (case sensitive)."""
    if len(pat) == 0:
        return len(text) == 0
    c = pat[0]
    if c == '*':
        rest = pat[1:]
        for i in range(len(text) + 1):
            if _glob(rest, text[i:]):
                return True
        return False
    if len(text) == 0:
        return False
    if c == '[':
        j = 1
        neg = False
        if j < len(pat) and pat[j] == '^':
            neg = True
            j += 1
        members = []
        first = True
        while j < len(pat) and (pat[j] != ']' or first):
            first = False
            if j + 2 < len(pat) and pat[j + 1] == '-' and pat[j + 2] != ']':
                members.append((pat[j], pat[j + 2]))
                j += 3
            else:
                members.append((pat[j], pat[j]))
                j += 1
        if j >= len(pat):
            return False
        hit = any(lo <= text[0] <= hi for lo, hi in members)
        if hit == neg:
            return False
        return _glob(pat[j + 1:], text[1:])
    if c == '?' or c == text[0]:
        return _glob(pat[1:], text[1:])
    return False


def _lookup(env, qual, name):
    for alias, cols, row in reversed(env):
        if (qual is None or qual == alias) and name in cols:
            return row[cols.index(name)]
    raise ModelError(f'no such column: {qual}.{name}')


def _jcopy(v):
    """What the dict <-> JSON adapter / converter of wn._db does to a metadata value: the stored
    value and the value read back are fresh objects (leaves are immutable and stay shared)."""
    t = type(v).__name__
    if t in ('dict', 'LinDict'):
        return {k: _jcopy(x) for k, x in v.items()}
    if t in ('list', 'tuple'):
        return [_jcopy(x) for x in v]
    return v


def _param(params, key):
    try:
        return _jcopy(params[key])
    except (KeyError, IndexError, TypeError):
        raise sqlite3.ProgrammingError(f'missing binding {key!r}') from None


class _Ctx:
    def __init__(self, db, params):
        self.db = db
        self.params = params
        self.ctes = {}


def ev(e, env, cx):
    k = e[0]
    if k == 'lit':
        return e[1]
    if k == 'par':
        return _param(cx.params, e[1])
    if k == 'npar':
        return _param(cx.params, e[1])
    if k == 'col':
        return _lookup(env, e[1], e[2])
    if k == 'and':
        a = ev(e[1], env, cx)
        if a is not None and not _truth(a):
            return 0
        b = ev(e[2], env, cx)
        if b is not None and not _truth(b):
            return 0
        return None if (a is None or b is None) else 1
    if k == 'or':
        a = ev(e[1], env, cx)
        if _truth(a):
            return 1
        b = ev(e[2], env, cx)
        if _truth(b):
            return 1
        return None if (a is None or b is None) else 0
    if k == 'not':
        a = ev(e[1], env, cx)
        return None if a is None else (0 if _truth(a) else 1)
    if k == 'cmp':
        a = ev(e[2], env, cx)
        b = ev(e[3], env, cx)
        if a is None or b is None:
            return None
        op = e[1]
        if op == '=':
            r = _eq(a, b)
        elif op in ('<>', '!='):
            r = not _eq(a, b)
        elif op == '<':
            r = _b(lambda x, y: bool(x < y), a, b)
        elif op == '<=':
            r = _b(lambda x, y: bool(x <= y), a, b)
        elif op == '>':
            r = _b(lambda x, y: bool(x > y), a, b)
        else:
            r = _b(lambda x, y: bool(x >= y), a, b)
        return 1 if r else 0
    if k == 'isnull':
        return 1 if ev(e[1], env, cx) is None else 0
    if k == 'cat':
        a = ev(e[1], env, cx)
        b = ev(e[2], env, cx)
        return None if (a is None or b is None) else _b(lambda x, y: x + y, a, b)
    if k == 'case':
        base = None if e[1] is None else ev(e[1], env, cx)
        for c, v in e[2]:
            if e[1] is None:
                hit = _truth(ev(c, env, cx))
            else:
                w = ev(c, env, cx)
                hit = base is not None and w is not None and _b(lambda x, y: x == y, base, w)
            if hit:
                return ev(v, env, cx)
        return ev(e[3], env, cx)
    if k == 'arith':
        a = ev(e[2], env, cx)
        b = ev(e[3], env, cx)
        if a is None or b is None:
            return None
        return _b((lambda x, y: x + y) if e[1] == '+' else (lambda x, y: x - y), a, b)
    if k == 'glob':
        a = ev(e[1], env, cx)
        b = ev(e[2], env, cx)
        if a is None or b is None:
            return None
        return 1 if _b(_glob, b, a) else 0
    if k in ('in_tab', 'in_sel', 'in_list'):
        a = ev(e[1], env, cx)
        if k == 'in_tab':
            if e[2] in cx.ctes:
                vals = [r[0] for r in cx.ctes[e[2]][1]]
            else:
                vals = [r[0] for r in cx.db.tables[e[2]][1]]
        elif k == 'in_sel':
            vals = [r[0] for r in run_select(e[2], cx, env)]
        else:
            vals = [ev(x, env, cx) for x in e[2]]
        if not vals:
            return 0
        if a is None:
            return None
        sawnull = False
        for v in vals:
            if v is None:
                sawnull = True
            elif _eq(v, a):
                return 1
        return None if sawnull else 0
    if k == 'scalar':
        rows = run_select(e[1], cx, env)
        return rows[0][0] if rows else None
    raise ModelError('cannot evaluate ' + k)


def _sortkey(v):
    # NULLs first, as in SQLite
    return (0, 0) if v is None else (1, v)


def _colname(item):
    e, alias = item
    if alias:
        return alias
    if e[0] == 'col':
        return e[2]
    return None


def run_select(sel, cx, outer=()):
    global ORDER_FLIP
    _, distinct, items, sources, where, order, limit = sel
    envs = [list(outer)]
    for src, on in sources:
        if src[0] == 'tab':
            if src[1] in cx.ctes:
                cols, rows = cx.ctes[src[1]]
            elif src[1] in cx.db.tables:
                cols, rows = cx.db.tables[src[1]]
            else:
                raise OperationalError('no such table: ' + src[1])
            alias = src[2]
        else:
            sub = src[1]
            cols = [_colname(i) for i in sub[2]]
            rows = run_select(sub, cx, outer)
            alias = src[2]
        new = []
        for env in envs:
            for r in rows:
                e2 = env + [(alias, cols, r)]
                if on is None or _truth(ev(on, e2, cx)):
                    new.append(e2)
        envs = new
    out = []
    for env in envs:
        if where is None or _truth(ev(where, env, cx)):
            row = []
            for i, _a in items:
                if i[0] == 'star':
                    for _al, _c, _r in env[len(outer):]:
                        row.extend(_r)
                else:
                    row.append(ev(i, env, cx))
            key = None
            if order:
                names = [_colname(it) for it in items]
                key = []
                for o, _d in order:
                    # an ORDER BY term may name an output column alias
                    if o[0] == 'col' and o[1] is None and o[2] in names \
                            and not _resolvable(env, o[2]):
                        key.append(row[names.index(o[2])])
                    else:
                        key.append(ev(o, env, cx))
            out.append((key, row))
    if order:
        keys = [k for kr in out for k in kr[0]]
        for idx in range(len(order) - 1, -1, -1):
            _b(lambda *_v, idx=idx: out.sort(key=lambda kr: _sortkey(kr[0][idx]),
                                             reverse=order[idx][1]), *keys)
    rows = [r for _k, r in out]
    if distinct:
        seen = []
        for r in rows:
            if not any(_roweq(r, s) for s in seen):
                seen.append(r)
        rows = seen
    if not order and ORDER_FLIP:
        if _b(bool, ORDER_FLIP.pop(0)):
            rows = rows[::-1]
    if limit is not None:
        n = ev(limit, [], cx)
        if n is not None and _b(lambda x: bool(x >= 0), n):
            rows = _b(lambda x: rows[:x], n)
    return rows


def _resolvable(env, name):
    for _alias, cols, _row in env:
        if name in cols:
            return True
    return False


_RECURSION_BOUND = 16


def eval_ctes(ctes_ast, cx):
    for name, cols, body in ctes_ast:
        if body[0] == 'values':
            cx.ctes[name] = (cols, [[ev(x, [], cx) for x in row] for row in body[1]])
        elif body[0] == 'recursive':
            rows = []
            for r in run_select(body[1], cx):
                if not any(_roweq(r, q) for q in rows):
                    rows.append(r)
            frontier = list(rows)
            for _depth in range(_RECURSION_BOUND):
                if not frontier:
                    break
                cx.ctes[name] = (cols, frontier)
                new = []
                for r in run_select(body[2], cx):
                    if not any(_roweq(r, q) for q in rows) \
                            and not any(_roweq(r, q) for q in new):
                        new.append(r)
                rows.extend(new)
                frontier = new
            else:
                # unwinding assertion: never silently truncate
                raise ModelError('recursive CTE unwinding bound exceeded')
            cx.ctes[name] = (cols, rows)
        else:
            cx.ctes[name] = (cols, run_select(body, cx))


# ---------------------------------------------------------------------------
# schema and database

_SCHEMA_CACHE = {}


def schema_path():
    import wn
    return os.path.join(os.path.dirname(wn.__file__), 'schema.sql')


def load_schema(path=None):
    path = path or schema_path()
    with open(path) as f:
        text = f.read()
    if text in _SCHEMA_CACHE:
        return _SCHEMA_CACHE[text]
    c = sqlite3.connect(':memory:')
    c.executescript(text)
    sch = {}
    names = [r[0] for r in c.execute("select name from sqlite_master where type='table'")]
    for name in names:
        info = list(c.execute(f'pragma table_info({name})'))
        cols = [r[1] for r in info]
        types = {r[1]: (r[2] or '').upper() for r in info}
        notnull = [r[1] for r in info if r[3]]
        pk = [r[1] for r in info if r[5]]
        dflt = {r[1]: r[4] for r in info if r[4] is not None}
        uniques = []
        for idx in c.execute(f'pragma index_list({name})'):
            if idx[2] and idx[3] != 'pk':
                uniques.append([r[2] for r in c.execute(f'pragma index_info({idx[1]})')])
        fks = [(r[3], r[2], r[4], r[6]) for r in c.execute(f'pragma foreign_key_list({name})')]
        sch[name] = dict(cols=cols, types=types, notnull=notnull, pk=pk, uniques=uniques,
                         fks=fks, dflt=dflt)
    c.close()
    _SCHEMA_CACHE[text] = sch
    return sch


class MDB:
    """tables: name -> (cols, rows); rows are lists."""

    def __init__(self, schema=None, init=True):
        self.schema = schema or load_schema()
        self.tables = {t: (s['cols'], []) for t, s in self.schema.items()}
        if init:
            # what wn._db._init_db does after creating the tables
            self.tables['ili_statuses'][1].extend([[1, 'presupposed'], [2, 'proposed']])

    def snapshot(self):
        return {t: [list(r) for r in rows] for t, (_c, rows) in self.tables.items()}

    def restore(self, snap):
        for t, rows in snap.items():
            self.tables[t][1][:] = [list(r) for r in rows]


class MConn:
    """Stand-in for the sqlite3.Connection that wn._db.connect() returns (legacy
    transaction control: implicit BEGIN before INSERT/UPDATE/DELETE; ``with conn`` commits
    on success and rolls back on an exception)."""

    def __init__(self, db=None):
        self.db = db or MDB()
        self._saved = None
        self.log = []          # (kind, table) per executed statement
        self.commits = 0
        self.rollbacks = 0
        self.progress_handler = None
        self.hook = None       # called before every statement: hook(kind, sql)
        self.fk_on = True      # wn._db.connect() switches enforcement on for a new connection
        self.progress_in_statements = True   # False: harness injects progress faults itself

    @property
    def in_transaction(self):
        return self._saved is not None

    def cursor(self):
        return MCur(self)

    def execute(self, sql, params=()):
        return MCur(self).execute(sql, params)

    def executemany(self, sql, seq):
        return MCur(self).executemany(sql, seq)

    def executescript(self, script):
        raise ModelError('executescript is not modelled')

    def commit(self):
        if self._saved is not None:
            self.commits += 1
        self._saved = None

    def rollback(self):
        if self._saved is not None:
            self.db.restore(self._saved)
            self.rollbacks += 1
        self._saved = None

    def __enter__(self):
        return self

    def __exit__(self, et, _ev, _tb):
        if et is None:
            self.commit()
        else:
            self.rollback()
        return False

    def begin(self):
        if self._saved is None:
            self._saved = self.db.snapshot()

    def set_progress_handler(self, handler, n):
        self.progress_handler = handler

    def close(self):
        pass


class MCur:
    def __init__(self, conn):
        self.conn = conn
        self.db = conn.db
        self.rows = []
        self._pos = 0
        self.lastrowid = None
        self.rowcount = -1

    # result access --------------------------------------------------------
    def __iter__(self):
        return self

    def __next__(self):
        if self._pos >= len(self.rows):
            raise StopIteration
        r = self.rows[self._pos]
        self._pos += 1
        return r

    def fetchall(self):
        r = list(self.rows[self._pos:])
        self._pos = len(self.rows)
        return r

    def fetchone(self):
        if self._pos >= len(self.rows):
            return None
        r = self.rows[self._pos]
        self._pos += 1
        return r

    def close(self):
        pass

    # execution ----------------------------------------------------------------
    def executemany(self, sql, seq):
        a = parse(sql)
        if a[0] not in ('insert', 'update', 'delete'):
            raise sqlite3.ProgrammingError('executemany() can only execute DML statements.')
        items = list(seq)        # the caller's generator runs with tracing on
        if self.conn.hook is not None:
            self.conn.hook(a[0], sql)      # one call of executemany = one fault point
        for p in items:
            self.execute(sql, p, _hook=False)
        return self

    def execute(self, sql, params=(), _hook=True):
        a = parse(sql)
        k = a[0]
        conn = self.conn
        if _hook and conn.hook is not None:
            conn.hook(k, sql)
        conn.log.append((k, a[1] if k in ('insert', 'update', 'delete') else None))
        self.rows = []
        self._pos = 0
        if k == 'pragma':
            # PRAGMA foreign_keys is a no-op inside a transaction (SQLite documentation)
            if a[1] == 'foreign_keys' and a[2] is not None and not conn.in_transaction:
                conn.fk_on = a[2] in ('ON', '1', 'TRUE', 'YES')
            return self
        if conn.progress_handler is not None and conn.progress_in_statements:
            # SQLite calls the progress handler every n VM instructions of a running statement
            # and interrupts the statement when it returns non-zero.  How many instructions a
            # statement takes depends on the size of the database, so the model lets the
            # handler run once in every statement.
            if conn.progress_handler():
                raise OperationalError('interrupted')
        if not isinstance(params, (tuple, list, dict)):
            params = list(params) if not hasattr(params, 'keys') else params
        if FAST and NoTracing is not None and is_tracing():
            with NoTracing():
                return self._execute(a, params)
        return self._execute(a, params)

    def _execute(self, a, params):
        k = a[0]
        conn = self.conn
        db = self.db
        cx = _Ctx(db, params)
        if k == 'stmt':
            eval_ctes(a[1], cx)
            self.rows = [tuple(_jcopy(v) for v in r) for r in run_select(a[2], cx)]
            return self
        conn.begin()
        if k == 'insert':
            self._insert(a, cx)
        elif k == 'update':
            self._update(a, cx)
        elif k == 'delete':
            self._delete_stmt(a, cx)
        else:
            raise ModelError('cannot execute ' + k)
        return self

    # DML -------------------------------------------------------------------------
    def _check_row(self, t, row, skip=None):
        """NOT NULL, UNIQUE, FK for a new/updated row; returns the conflicting row for a
        UNIQUE violation (or None)."""
        db = self.db
        sch = db.schema[t]
        cols, rows = db.tables[t]
        for c in sch['notnull']:
            if row[cols.index(c)] is None:
                raise IntegrityError(f'NOT NULL constraint failed: {t}.{c}')
        keysets = list(sch['uniques'])
        if sch['pk']:
            keysets.append(sch['pk'])
        for u in keysets:
            idx = [cols.index(c) for c in u]
            if any(row[i] is None for i in idx):
                continue
            for r in rows:
                if r is skip:
                    continue
                if all(_eq(r[i], row[i]) for i in idx):
                    return r, u
        return None

    def _check_fks(self, t, row):
        db = self.db
        if not self.conn.fk_on:
            return
        cols = db.tables[t][0]
        for col, part, parcol, _ondel in db.schema[t]['fks']:
            v = row[cols.index(col)]
            if v is None:
                continue
            pcols, prows = db.tables[part]
            pi = pcols.index(parcol or db.schema[part]['pk'][0])
            if not any(_eq(pr[pi], v) for pr in prows):
                raise IntegrityError('FOREIGN KEY constraint failed')

    def _insert(self, a, cx):
        _, t, vals, ignore, upd = a
        db = self.db
        if t not in db.tables:
            raise OperationalError('no such table: ' + t)
        sch = db.schema[t]
        cols, rows = db.tables[t]
        row = [ev(v, [], cx) for v in vals]
        if len(row) != len(cols):
            raise OperationalError(
                f'table {t} has {len(cols)} columns but {len(row)} values were supplied')
        if len(sch['pk']) == 1 and 'INT' in sch['types'][sch['pk'][0]]:
            pki = cols.index(sch['pk'][0])
            if row[pki] is None:
                row[pki] = _b(lambda *vs: max(vs) + 1, *[r[pki] for r in rows]) if rows else 1
            self.lastrowid = row[pki]
        conflict = self._check_row(t, row)
        if conflict is not None:
            r, u = conflict
            if ignore:
                return
            if upd and [upd[0]] == u:
                env = [('excluded', cols, row), (t, cols, r)]
                if upd[2] is not None and not _truth(ev(upd[2], env, cx)):
                    return          # DO UPDATE ... WHERE false: the existing row is kept
                newvals = [(c, ev(e, env, cx)) for c, e in upd[1]]
                new = list(r)
                for c, v in newvals:
                    new[cols.index(c)] = v
                self._check_row(t, new, skip=r)
                self._check_fks(t, new)
                r[:] = new
                return
            raise IntegrityError(f"UNIQUE constraint failed: {', '.join(t + '.' + c for c in u)}")
        self._check_fks(t, row)
        rows.append(row)

    def _update(self, a, cx):
        _, t, sets, w = a
        cols, rows = self.db.tables[t]
        for r in rows:
            env = [(t, cols, r)]
            if w is None or _truth(ev(w, env, cx)):
                new = list(r)
                for c, e in sets:
                    new[cols.index(c)] = ev(e, env, cx)
                c2 = self._check_row(t, new, skip=r)
                if c2 is not None:
                    raise IntegrityError(f'UNIQUE constraint failed: {t}')
                self._check_fks(t, new)
                r[:] = new

    def _delete_stmt(self, a, cx):
        _, t, w = a
        cols, rows = self.db.tables[t]
        doomed = [r for r in rows if w is None or _truth(ev(w, [(t, cols, r)], cx))]
        deleted = []   # (table, row) removed by this statement incl. cascades
        for r in doomed:
            self._delete(t, r, deleted)
        # NO ACTION / RESTRICT references are checked at the end of the statement
        db = self.db
        if not self.conn.fk_on:
            return
        for pt, prow in deleted:
            pcols = db.tables[pt][0]
            for ct, sch in db.schema.items():
                for col, part, parcol, ondel in sch['fks']:
                    if part != pt or ondel in ('CASCADE', 'SET NULL'):
                        continue
                    pv = prow[pcols.index(parcol or db.schema[pt]['pk'][0])]
                    ccols, crows = db.tables[ct]
                    ci = ccols.index(col)
                    for cr in crows:
                        if cr[ci] is not None and _eq(cr[ci], pv):
                            raise IntegrityError('FOREIGN KEY constraint failed')

    def _delete(self, t, row, deleted):
        db = self.db
        cols, rows = db.tables[t]
        if not any(r is row for r in rows):
            return
        rows[:] = [r for r in rows if r is not row]
        deleted.append((t, row))
        if not self.conn.fk_on:
            return
        for ct, sch in db.schema.items():
            for col, part, parcol, ondel in sch['fks']:
                if part != t or ondel not in ('CASCADE', 'SET NULL'):
                    continue
                pv = row[cols.index(parcol or db.schema[t]['pk'][0])]
                ccols, crows = db.tables[ct]
                ci = ccols.index(col)
                for cr in list(crows):
                    if cr[ci] is not None and _eq(cr[ci], pv):
                        if ondel == 'CASCADE':
                            self._delete(ct, cr, deleted)
                        else:
                            if col in sch['notnull']:
                                raise IntegrityError(f'NOT NULL constraint failed: {ct}.{col}')
                            cr[ci] = None


# ---------------------------------------------------------------------------
# installation into wn

_INSTALLED = {}


def install(conn=None):
    """Rebind connect() in wn._db, wn._queries, wn._add to return *conn* (a fresh model
    database when None).  Returns the connection."""
    import wn._db
    import wn._queries
    import wn._add
    _remember_original()
    if conn is None:
        conn = MConn()
    _INSTALLED['conn'] = conn

    def connect():
        return _INSTALLED['conn']
    for mod in (wn._db, wn._queries, wn._add):
        mod.connect = connect
    return conn


def uninstall():
    import wn._db
    import wn._queries
    import wn._add
    orig = _INSTALLED.get('orig')
    if orig is not None:
        for mod in (wn._db, wn._queries, wn._add):
            mod.connect = orig


def _remember_original():
    import wn._db
    if 'orig' not in _INSTALLED:
        _INSTALLED['orig'] = wn._db.connect
