"""Fidelity gate for vf.sqlmodel: the real wn code is run against real SQLite and against
the model on the repository's test documents; every table and a battery of real query
functions must agree.  Run by MANIFEST.setup_cmd (python -m vf.selftest)."""
import glob
import itertools
import os
import shutil
import sys
import tempfile


def _norm(v):
    if isinstance(v, bool):
        return int(v)
    if isinstance(v, (list, tuple)):
        return tuple(_norm(x) for x in v)
    if isinstance(v, dict):
        return tuple(sorted((k, _norm(x)) for k, x in v.items()))
    return v


def _dump_real(conn, tables):
    out = {}
    for t in tables:
        out[t] = sorted((_norm(r) for r in conn.execute(f'SELECT * FROM {t}')), key=repr)
    return out


def _dump_model(db):
    return {t: sorted((_norm(r) for r in rows), key=repr) for t, (_c, rows) in db.tables.items()}


def _battery(Q, lexids):
    """Calls of the real query functions; results normalised and, where the statement has
    no ORDER BY, sorted."""
    res = []

    def rec(name, val, ordered=False):
        val = [_norm(x) for x in val]
        res.append((name, val if ordered else sorted(val, key=repr)))

    combos = [tuple(lexids)] + [(i,) for i in lexids]
    for spec in ('*', 'test-en', 'test-en:1', 'test-*', '*:1', 'test-en test-es', 'test-ja:*',
                 'nope'):
        for lang in (None, 'en', 'es'):
            try:
                rec(f'find_lexicons {spec} {lang}', list(Q.find_lexicons(spec, lang)))
            except Exception as exc:  # noqa: BLE001
                res.append((f'find_lexicons {spec} {lang}', type(exc).__name__))
    for lx in lexids:
        rec(f'deps {lx}', Q.get_lexicon_dependencies(lx))
        rec(f'bases {lx}', Q.get_lexicon_extension_bases(lx), True)
        rec(f'exts {lx}', Q.get_lexicon_extensions(lx), True)
        rec(f'lexicon {lx}', [Q.get_lexicon(lx)])
    for ids in combos:
        words = list(Q.find_entries(lexicon_rowids=ids))
        rec(f'entries {ids}', words, True)
        senses = list(Q.find_senses(lexicon_rowids=ids))
        rec(f'senses {ids}', senses)
        synsets = list(Q.find_synsets(lexicon_rowids=ids))
        rec(f'synsets {ids}', synsets)
        rec(f'ilis {ids}', list(Q.find_ilis(lexicon_rowids=ids)))
        rec(f'ilis proposed {ids}', list(Q.find_ilis(status='proposed', lexicon_rowids=ids)))
        rec(f'sb {ids}', list(Q.find_syntactic_behaviours(lexicon_rowids=ids)))
        for form, norm, allf in itertools.product(
                ('information', 'Information', 'exemplifies', 'ilustracion', 'illustrations'),
                (False, True), (False, True)):
            for pos in (None, 'n', 'v'):
                kw = dict(forms=[form], pos=pos, lexicon_rowids=ids, normalized=norm,
                          search_all_forms=allf)
                rec(f'entries {kw}', list(Q.find_entries(**kw)), True)
                rec(f'senses {kw}', list(Q.find_senses(**kw)))
                rec(f'synsets {kw}', list(Q.find_synsets(**kw)), True)
        for w in words:
            rec(f'entry_senses {w[4]} {ids}', list(Q.get_entry_senses(w[4], ids)), True)
            for f in w[2]:
                rec(f'tags {f[3]}', Q.get_form_tags(f[3]))
                rec(f'prons {f[3]}', Q.get_form_pronunciations(f[3]))
            rec(f'meta entry {w[4]}', [Q.get_metadata(w[4], 'entries')])
        for s in senses:
            for types in (('*',), (), ('antonym', 'derivation'), ('domain_topic',)):
                rec(f'srel {s[4]} {types} {ids}', list(Q.get_sense_relations(s[4], types, ids)))
                rec(f'ssrel {s[4]} {types} {ids}',
                    list(Q.get_sense_synset_relations(s[4], types, ids)))
            rec(f'examples s {s[4]}', Q.get_examples(s[4], 'senses', ids))
            rec(f'counts {s[4]}', Q.get_sense_counts(s[4], ids))
            rec(f'sbs {s[4]}', Q.get_syntactic_behaviours(s[4], ids))
            rec(f'adj {s[4]}', [Q.get_adjposition(s[4])])
            rec(f'lexd {s[4]}', [Q.get_lexicalized(s[4], 'senses')])
        for ss in synsets:
            for types in (('*',), (), ('hypernym',), ('hyponym', 'hypernym')):
                rec(f'ssrels {ss[4]} {types} {ids}',
                    list(Q.get_synset_relations({ss[4]}, types, ids)))
            rec(f'members {ss[4]}', list(Q.get_synset_members(ss[4], ids)), True)
            rec(f'defs {ss[4]}', Q.get_definitions(ss[4], ids))
            rec(f'examples ss {ss[4]}', Q.get_examples(ss[4], 'synsets', ids))
            rec(f'lexfile {ss[4]}', [Q.get_lexfile(ss[4])])
            rec(f'pili {ss[4]}', list(Q.find_proposed_ilis(synset_rowid=ss[4])))
            if ss[2]:
                rec(f'by ili {ss[2]} {ids}', list(Q.get_synsets_for_ilis([ss[2]], ids)))
                rec(f'synsets ili {ss[2]} {ids}',
                    list(Q.find_synsets(ili=ss[2], lexicon_rowids=ids)))
    return res


def main():
    import wn
    import wn._db
    import wn._queries as Q
    from wn import lmf
    from vf import sqlmodel as SM

    data = os.path.join(os.path.dirname(os.path.dirname(wn.__file__)), 'tests', 'data')
    files = [os.path.join(data, f) for f in
             ('mini-lmf-1.0.xml', 'mini-lmf-1.1.xml', 'mini-lmf-1.3.xml')]
    files = [f for f in files if os.path.exists(f)]
    if not files:
        print('sqlmodel selftest: repository test data not found; skipped', file=sys.stderr)
        return
    resources = [lmf.load(f, progress_handler=None) for f in files]
    tmp = tempfile.mkdtemp(prefix='vf-sqlself-')
    old = wn.config.data_directory
    try:
        wn.config.data_directory = tmp
        SM._remember_original()
        mconn = SM.MConn()
        n_tables = n_calls = 0
        steps = [('add', r) for r in resources] + [('remove', 'test-en:1'),
                                                   ('add', resources[0]), ('remove', 'test-ja:1'),
                                                   ('remove', 'test-es:*'),
                                                   # enforcement off: no cascade, orphans stay
                                                   ('pragma', 'PRAGMA foreign_keys = OFF'),
                                                   ('remove', 'test-en:1'),
                                                   ('pragma', 'PRAGMA foreign_keys = ON')]
        for op, arg in steps:
            for which in ('real', 'model'):
                if which == 'real':
                    SM.uninstall()
                else:
                    SM.install(mconn)
                if op == 'add':
                    wn.add_lexical_resource(arg, progress_handler=None)
                elif op == 'pragma':
                    (wn._db.connect() if which == 'real' else mconn).execute(arg)
                else:
                    wn.remove(arg, progress_handler=None)
            SM.uninstall()
            rconn = wn._db.connect()
            real = _dump_real(rconn, list(mconn.db.tables))
            model = _dump_model(mconn.db)
            for t in real:
                n_tables += 1
                if real[t] != model[t]:
                    raise SystemExit(f'sqlmodel selftest: table {t} differs after {op}:\n'
                                     f' real  {real[t][:5]}\n model {model[t][:5]}')
            lexids = [r[0] for r in rconn.execute('SELECT rowid FROM lexicons')]
            b_real = _battery(Q, lexids)
            SM.install(mconn)
            b_model = _battery(Q, lexids)
            SM.uninstall()
            n_calls += len(b_real)
            for x, y in zip(b_real, b_model):
                if x != y:
                    raise SystemExit(f'sqlmodel selftest: query differs: {x[0]}\n real  {x[1]}\n'
                                     f' model {y[1]}')
        print(f'sqlmodel selftest ok: {n_tables} table comparisons, {n_calls} query calls agree')
    finally:
        SM.uninstall()
        wn._db.pool.clear()
        wn.config.data_directory = old
        shutil.rmtree(tmp, ignore_errors=True)


if __name__ == '__main__':
    main()
