"""./check <ID> [--tier quick|thorough] [--replay FILE] [--only a,b]"""
import argparse
import json
import os
import sys

VERIF = os.path.dirname(os.path.dirname(os.path.abspath(__file__)))


def main():
    ap = argparse.ArgumentParser()
    ap.add_argument('pid')
    ap.add_argument('--tier', default=os.environ.get('VERIF_TIER', 'quick'),
                    choices=['quick', 'thorough'])
    ap.add_argument('--replay', default=None)
    ap.add_argument('--only', default='')
    a = ap.parse_args()
    os.environ['VERIF_TIER'] = a.tier
    seed = int(os.environ.get('VERIF_SEED', '0') or 0)
    if os.environ.get('WN_REPO'):
        sys.path.insert(0, os.environ['WN_REPO'])
    sys.path.insert(0, VERIF)
    from vf import chx
    harness = os.path.join(VERIF, 'harness', a.pid + '.py')
    if not os.path.exists(harness):
        print(f'no harness for {a.pid}', file=sys.stderr)
        return 2
    if a.replay:
        with open(a.replay) as f:
            w = json.load(f)['witness']
        r = chx.replay_call(os.path.join(VERIF, w['harness']), w['fn'], w.get('part', ''),
                            w['call'])
        print(json.dumps(r, indent=1))
        if r.get('result') in (False, 'exception'):
            print(f'VIOLATION property={a.pid} replay={a.replay}')
            return 1
        return 0 if r.get('result') is True else 2
    only = [x for x in a.only.split(',') if x]
    return chx.check_property(a.pid, harness, a.tier, seed, only=only)


if __name__ == '__main__':
    sys.exit(main())
