"""Driver: runs the obligations of one property through CrossHair workers in parallel,
replays counterexamples against the real code, applies the known-findings file,
writes the evidence file and decides the exit code."""
import json
import os
import subprocess
import sys
import tempfile
import time

from vf import evidence as ev

VERIF = os.path.dirname(os.path.dirname(os.path.abspath(__file__)))
PY = sys.executable
NJOBS = int(os.environ.get('VF_JOBS', str(max(2, (os.cpu_count() or 4) - 2))))


class Ob:
    """One proof obligation = one harness function (x partitions)."""

    def __init__(self, name, fn, parts=1, quick=None, thorough=None, canary=None,
                 canary_part=0, functions=(), bounds='', outside='', stubs=(),
                 path_timeout=30.0, symbolic='', tiers=('quick', 'thorough'),
                 twin_parts=None, canary_timeout=None):
        self.name = name
        self.fn = fn
        self.parts = parts
        self.quick = dict(timeout=60)
        self.quick.update(quick or {})
        self.thorough = dict(self.quick)
        self.thorough.update(thorough or {})
        # canary: name | [(name, part), ...]
        if canary is None:
            self.canaries = []
        elif isinstance(canary, str):
            self.canaries = [(canary, canary_part)]
        else:
            self.canaries = [tuple(c) if not isinstance(c, str) else (c, canary_part)
                             for c in canary]
        self.functions = list(functions)
        self.bounds = bounds
        self.outside = outside
        self.stubs = list(stubs)
        self.path_timeout = path_timeout
        self.symbolic = symbolic
        self.tiers = tiers
        self.twin_parts = twin_parts
        self.canary_timeout = canary_timeout

    def cfg(self, tier):
        c = dict(self.thorough if tier == 'thorough' else self.quick)
        # global cap per partition (keeps the thorough tier inside ~30 min per property on 16
        # cores); a partition that does not close in time is reported as bug hunting only
        cap = float(os.environ.get('VF_MAX_TIMEOUT', '480'))
        c['timeout'] = min(c['timeout'], cap)
        return c


def _pythonpath(env):
    """/verif first; then the tree under test when it is not /repo itself (WN_REPO names a
    scratch copy, used to try seeded changes without touching /repo)."""
    parts = [VERIF]
    if env.get('WN_REPO'):
        parts.append(env['WN_REPO'])
    if env.get('PYTHONPATH'):
        parts.append(env['PYTHONPATH'])
    return os.pathsep.join(parts)


def load_harness_module(path):
    from vf import replay
    os.environ.setdefault('VF_MODE', 'real')
    return replay.load_harness(path)


def _spawn(job, tmpdir, tier, seed):
    out = os.path.join(tmpdir, f"job{job['n']}.json")
    job['out'] = out
    cmd = [PY, '-m', 'vf.worker', '--harness', job['harness'], '--fn', job['fn'],
           '--part', job['part'], '--mode', job['mode'], '--canary', job.get('canary') or '',
           '--timeout', str(job['timeout']), '--path-timeout', str(job['path_timeout']),
           '--out', out]
    env = dict(os.environ)
    env['VERIF_TIER'] = tier
    env['VERIF_SEED'] = str(seed)
    env['PYTHONPATH'] = _pythonpath(env)
    env['PYTHONHASHSEED'] = '0'
    env.update(job.get('env') or {})
    # scratch space of the worker (wn data directory, real databases of replays) lives inside
    # the run directory, which is removed when the run ends - also when the worker is killed
    scratch = os.path.join(tmpdir, f"t{job['n']}")
    os.makedirs(scratch, exist_ok=True)
    env['TMPDIR'] = scratch
    log = open(os.path.join(tmpdir, f"job{job['n']}.log"), 'w')
    job['logpath'] = log.name
    job['t0'] = time.time()
    job['proc'] = subprocess.Popen(cmd, cwd=VERIF, env=env, stdout=log, stderr=log)
    log.close()


def _collect(job):
    p = job.pop('proc')
    res = None
    if os.path.exists(job['out']):
        try:
            with open(job['out']) as f:
                res = json.load(f)
        except Exception:  # noqa: BLE001
            res = None
    if res is None:
        tail = ''
        try:
            with open(job['logpath']) as f:
                tail = f.read()[-3000:]
        except OSError:
            pass
        res = {'verdict': 'harness-error',
               'error': f'worker produced no result (rc={p.returncode})\n{tail}'}
    if job.get('killed'):
        res = {'verdict': 'no-counterexample-in-budget', 'killed': True,
               'note': 'worker exceeded its wall-clock cap and was stopped'}
    res['wall_s'] = round(time.time() - job['t0'], 2)
    job['result'] = res


def run_jobs(jobs, tier, seed, progress=True):
    tmpdir = tempfile.mkdtemp(prefix='vf-run-')
    pending = list(jobs)
    running = []
    done = 0
    try:
        while pending or running:
            while pending and len(running) < NJOBS:
                j = pending.pop(0)
                _spawn(j, tmpdir, tier, seed)
                running.append(j)
            time.sleep(0.2)
            for j in list(running):
                rc = j['proc'].poll()
                if rc is None:
                    if time.time() - j['t0'] > j['wall_cap']:
                        j['proc'].kill()
                        j['proc'].wait()
                        j['killed'] = True
                    else:
                        continue
                running.remove(j)
                _collect(j)
                done += 1
                if progress:
                    r = j['result']
                    print(f"  [{done}/{len(jobs)}] {j['ob']}:{j['mode']}:{j['part']} "
                          f"{r['verdict']} paths={r.get('paths', '-')} {r['wall_s']}s",
                          file=sys.stderr, flush=True)
    finally:
        for j in running:
            try:
                j['proc'].kill()
            except Exception:  # noqa: BLE001
                pass
        import shutil
        shutil.rmtree(tmpdir, ignore_errors=True)


def replay_call(harness, fn, part, call, canary='', timeout=90):
    cmd = [PY, '-m', 'vf.replay', '--harness', harness, '--fn', fn, '--part', part,
           '--call', call, '--canary', canary]
    env = dict(os.environ)
    env['PYTHONPATH'] = _pythonpath(env)
    env.pop('VF_TWIN', None)
    scratch = tempfile.mkdtemp(prefix='vf-rp-')
    env['TMPDIR'] = scratch
    try:
        p = subprocess.run(cmd, cwd=VERIF, env=env, capture_output=True, text=True,
                           timeout=timeout)
    except subprocess.TimeoutExpired:
        return {'result': 'timeout'}
    finally:
        import shutil
        shutil.rmtree(scratch, ignore_errors=True)
    lines = [ln for ln in p.stdout.strip().splitlines() if ln.startswith('{')]
    if not lines:
        return {'result': 'error', 'stderr': (p.stderr or '')[-2000:]}
    return json.loads(lines[-1])


def load_findings():
    with open(os.path.join(VERIF, 'known_findings.json')) as f:
        return json.load(f)['findings']


def check_property(pid, harness_path, tier, seed, only=None):
    """Returns the exit code."""
    t_start = time.time()
    mod = load_harness_module(harness_path)
    obs = [o for o in mod.OBLIGATIONS if tier in o.tiers and (not only or o.name in only)]
    lines = []          # stdout lines (KNOWN-FINDING / VIOLATION)
    harness_errors = []
    violations = []
    notes = []

    # 1. known findings: replay listed witnesses ---------------------------------
    finding_rows = []
    for f in load_findings():
        if f['property'] != pid:
            continue
        w = f.get('witness')
        row = {'id': f['id'], 'status': f['status'], 'what': f['what']}
        if w:
            r = replay_call(os.path.join(VERIF, w['harness']), w['fn'], w.get('part', ''),
                            w['call'])
            row['replay'] = r.get('result')
            fails = r.get('result') in (False, 'exception')
            if f['status'] == 'open':
                if fails:
                    lines.append(f"KNOWN-FINDING: property={pid} {f['what']}")
                elif r.get('result') is True:
                    notes.append(f"finding {f['id']} no longer reproduces")
                else:
                    harness_errors.append(f"witness of {f['id']} could not be replayed: {r}")
            else:  # fixed: the witness is a regression test and suppresses nothing
                if fails:
                    rp = write_replay(pid, f['id'], w, r)
                    violations.append({'ob': f['id'], 'call': w['call'], 'replay': rp,
                                       'what': 'fixed finding has returned: ' + f['what']})
                elif r.get('result') is not True:
                    harness_errors.append(f"witness of {f['id']} could not be replayed: {r}")
        finding_rows.append(row)

    # 2. symbolic search -----------------------------------------------------------
    jobs = []
    n = 0
    for o in obs:
        cfg = o.cfg(tier)
        parts = cfg.get('parts', o.parts)
        tparts = o.twin_parts if o.twin_parts is not None else range(parts)
        for i in range(parts):
            for mode in ('main', 'twin'):
                if mode == 'twin' and i not in tparts:
                    continue
                n += 1
                to = cfg['timeout'] if mode == 'main' else min(cfg['timeout'], 120)
                jobs.append(dict(n=n, ob=o.name, harness=harness_path, fn=o.fn,
                                 part=f'{i}/{parts}', mode=mode, timeout=to,
                                 path_timeout=cfg.get('path_timeout', o.path_timeout),
                                 wall_cap=to * 2 + 60, env=cfg.get('env')))
        for cname, cpart in o.canaries:
            n += 1
            cpart = cpart if cpart < parts else 0
            to = o.canary_timeout or max(cfg['timeout'], 120)
            jobs.append(dict(n=n, ob=o.name, harness=harness_path, fn=o.fn,
                             part=f'{cpart}/{parts}', mode='canary', canary=cname,
                             timeout=to, path_timeout=cfg.get('path_timeout', o.path_timeout),
                             wall_cap=to * 2 + 60, env=cfg.get('env')))
    # long jobs first
    order = {'main': 0, 'canary': 1, 'twin': 2}
    jobs.sort(key=lambda j: (order[j['mode']], -j['timeout']))
    t_jobs = time.time()
    run_jobs(jobs, tier, seed)
    print(f'  workers done in {time.time() - t_jobs:.0f}s', file=sys.stderr, flush=True)

    # 2b. every reachability witness (a concrete input that reached the assertion under the
    # encoding) is also run through the unmodified code in real mode: the encoding (transforms,
    # SQL model, stubs) and the real implementation must agree on it
    from concurrent.futures import ThreadPoolExecutor
    twin_jobs = [j for j in jobs if j['mode'] == 'twin' and j['result'].get('verdict') == 'counterexample'
                 and j['result'].get('cex_call')]

    def _validate(j):
        return j, replay_call(harness_path, j['fn'], j['part'], j['result']['cex_call'], timeout=120)
    validated = {}
    if twin_jobs and os.environ.get('VF_NO_VALIDATE') != '1':
        with ThreadPoolExecutor(max_workers=NJOBS) as ex:
            for j, rr in ex.map(_validate, twin_jobs):
                validated[j['n']] = rr

    # 3. interpret -------------------------------------------------------------------
    ob_rows = []
    for o in obs:
        oj = [j for j in jobs if j['ob'] == o.name]
        row = {'name': o.name, 'harness_fn': o.fn, 'functions': o.functions,
               'bounds': o.bounds, 'symbolic': o.symbolic, 'outside': o.outside,
               'stubs': o.stubs, 'partitions': [], 'paths': 0, 'confirmed_paths': 0,
               'smt_queries': 0, 'solver_s': 0.0, 'cpu_wall_s': 0.0}
        verdicts = []
        for j in oj:
            r = j['result']
            for k in ('paths', 'confirmed_paths', 'smt_queries'):
                row[k] += int(r.get(k, 0) or 0)
            row['solver_s'] = round(row['solver_s'] + float(r.get('solver_s', 0) or 0), 3)
            row['cpu_wall_s'] = round(row['cpu_wall_s'] + float(r.get('wall_s', 0) or 0), 2)
            v = r['verdict']
            if j['mode'] == 'main':
                row['main_confirmed_paths'] = row.get('main_confirmed_paths', 0) + \
                    int(r.get('confirmed_paths', 0) or 0)
                prow = {'part': j['part'], 'verdict': v, 'paths': r.get('paths', 0),
                        'wall_s': r.get('wall_s')}
                if v == 'counterexample':
                    call = r.get('cex_call')
                    rr = replay_call(harness_path, o.fn, j['part'], call) if call else \
                        {'result': 'unparsed'}
                    prow['cex'] = call or r.get('cex_message')
                    prow['replay'] = rr.get('result')
                    if rr.get('result') in (False, 'exception', 'timeout'):
                        rp = write_replay(pid, o.name, dict(
                            harness=os.path.relpath(harness_path, VERIF), fn=o.fn,
                            part=j['part'], call=call), rr, r.get('cex_message'))
                        violations.append({'ob': o.name, 'call': call, 'replay': rp,
                                           'what': r.get('cex_message', '')[:300]})
                        prow['verdict'] = v = 'violation'
                    else:
                        harness_errors.append(
                            f"{o.name}[{j['part']}]: counterexample does not reproduce against "
                            f"the real code: {call or r.get('cex_message')} -> {rr}")
                        prow['verdict'] = v = 'harness-error'
                elif v == 'pre-unsat':
                    harness_errors.append(f"{o.name}[{j['part']}]: unable to meet precondition")
                elif v == 'harness-error':
                    harness_errors.append(f"{o.name}[{j['part']}]: {r.get('error', '')[-1500:]}")
                verdicts.append(v)
                row['partitions'].append(prow)
            elif j['mode'] == 'twin':
                if v == 'counterexample':
                    row.setdefault('twin_witnesses', []).append(r.get('cex_call'))
                    rr = validated.get(j['n'])
                    if rr is not None:
                        row['validated_on_real_code'] = row.get('validated_on_real_code', 0) + 1
                        if rr.get('result') in (False, 'exception', 'timeout'):
                            rp = write_replay(pid, o.name, dict(
                                harness=os.path.relpath(harness_path, VERIF), fn=o.fn,
                                part=j['part'], call=r['cex_call']), rr,
                                'sampled input fails on the real code (found by real-mode '
                                'validation of a reachability witness, not by the solver)')
                            violations.append({'ob': o.name, 'call': r['cex_call'], 'replay': rp,
                                               'what': 'real code fails on a sampled input'})
                            row['real_mode_failure'] = r['cex_call']
                        elif rr.get('result') is not True:
                            notes.append(f"{o.name}[{j['part']}]: reachability witness could not "
                                         f"be replayed in real mode: {str(rr)[:200]}")
                elif v == 'no-counterexample-in-budget':
                    notes.append(f"{o.name}[{j['part']}]: reachability twin did not finish in "
                                 f"budget")
                    row['twin_inconclusive'] = True
                else:
                    harness_errors.append(
                        f"{o.name}[{j['part']}]: reachability twin says the harness is vacuous "
                        f"({v}) {r.get('error', '')[-800:]}")
            else:  # canary
                cname = j['canary']
                crow = {'name': cname, 'verdict': v}
                row.setdefault('canaries', []).append(crow)
                if v == 'counterexample':
                    call = r.get('cex_call')
                    crow['witness'] = call
                    if call:
                        rr = replay_call(harness_path, o.fn, j['part'], call, canary=cname,
                                         timeout=30)
                        crow['replay_fails_on_broken_copy'] = \
                            rr.get('result') in (False, 'exception', 'timeout')
                        if rr.get('result') is True:
                            notes.append(f"{o.name}: witness of canary '{cname}' does not "
                                         f"reproduce concretely on the broken copy")
                elif v == 'confirmed':
                    harness_errors.append(
                        f"{o.name}: canary '{cname}' (deliberately broken copy) was "
                        f"'confirmed' - the harness is blind to it")
                elif v == 'harness-error' and 'text patch' in r.get('error', ''):
                    crow['verdict'] = 'unavailable'
                    notes.append(f"{o.name}: patch of canary '{cname}' no longer matches the "
                                 f"source")
                elif v == 'harness-error':
                    harness_errors.append(f"{o.name}: canary '{cname}' run failed: "
                                          f"{r.get('error', '')[-800:]}")
                else:
                    notes.append(f"{o.name}: canary '{cname}' not killed within budget ({v})")
        if any(v == 'violation' for v in verdicts) or row.get('real_mode_failure'):
            row['verdict'] = 'violation'
        elif any(v in ('harness-error', 'pre-unsat') for v in verdicts):
            row['verdict'] = 'harness-error'
        elif verdicts and all(v == 'confirmed' for v in verdicts):
            row['verdict'] = 'confirmed'
        else:
            row['verdict'] = 'no-counterexample-in-budget'
        row['exhaustive'] = row['verdict'] == 'confirmed'
        ob_rows.append(row)

    if getattr(mod, 'EXTRA', None) == 'formulas' and (not only or 'formulas' in only):
        from vf import formulas
        frows, fviol, ferrs = formulas.run(pid)
        ob_rows.extend(frows)
        harness_errors.extend(ferrs)
        for v in fviol:
            v['replay'] = write_replay(pid, v['ob'], {'formula_query': v['call'],
                                                       'model': v['model']}, {'result': False},
                                       v['what'])
            violations.append(v)
    for v in violations:
        lines.append(f"VIOLATION property={pid} replay={v['replay']}")
    wall = time.time() - t_start
    ev.write(pid, tier, seed, ob_rows, finding_rows, violations, harness_errors, notes, wall,
             getattr(mod, 'ASSUMPTIONS', []), getattr(mod, 'TECHNIQUE', ''))
    for ln in lines:
        print(ln, flush=True)
    summ = ', '.join(f"{r['name']}={r['verdict']}" for r in ob_rows)
    print(f"{pid} [{tier}] {summ}; wall {wall:.0f}s", flush=True)
    for nt in notes:
        print('NOTE: ' + nt, flush=True)
    if violations:
        return 1
    if harness_errors:
        for h in harness_errors:
            print('HARNESS-ERROR: ' + h, file=sys.stderr, flush=True)
        return 2
    return 0


def write_replay(pid, name, witness, replay_result, message=None):
    d = os.path.join(VERIF, 'replays')
    os.makedirs(d, exist_ok=True)
    k = 0
    while True:
        p = os.path.join(d, f'{pid}-{name}-{k}.json')
        if not os.path.exists(p):
            break
        try:
            with open(p) as f:
                if json.load(f).get('witness') == witness:
                    return p
        except Exception:  # noqa: BLE001
            pass
        k += 1
    with open(p, 'w') as f:
        json.dump({'property': pid, 'obligation': name, 'witness': witness,
                   'message': message, 'real_mode_result': replay_result,
                   'how_to_replay': f"./check {pid} --replay {os.path.relpath(p, VERIF)}"},
                  f, indent=1)
    return p
