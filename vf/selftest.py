"""Setup-time self tests of the framework (fast; run by MANIFEST.setup_cmd)."""
import sys


def test_lincont():
    from vf.lincont import LinSet, LinDict, LinCounter, NDSet, ND_CHOICES
    s = LinSet([1, 2, 2, 3])
    assert len(s) == 3 and 2 in s and 5 not in s
    assert (s | {4}) == LinSet([1, 2, 3, 4]) and (s & {2, 9}) == {2} and (s - {1}) == {2, 3}
    d = LinDict([('a', 1)])
    d['b'] = 2
    d.setdefault('c', []).append(1)
    assert d == {'a': 1, 'b': 2, 'c': [1]} and d.get('z') is None and list(d) == ['a', 'b', 'c']
    c = LinCounter('abca')
    assert c['a'] == 2 and c['z'] == 0
    # in-place operators keep the identity of the container (aliasing is visible), with the
    # arithmetic of collections.Counter / dict
    from collections import Counter
    for op in ('|', '+', '-', '&'):
        for x, y in (('aab', 'bcc'), ('aab', 'abb'), ('', 'a'), ('abc', '')):
            lc, alias, rc = LinCounter(x), None, Counter(x)
            alias = lc
            ns = {'lc': lc, 'rc': rc, 'ly': LinCounter(y), 'ry': Counter(y)}
            exec(f'lc {op}= ly; rc {op}= ry', ns)
            assert ns['lc'] is alias and dict(ns['lc'].items()) == dict(ns['rc']), (op, x, y)
            assert dict(eval(f'LinCounter(x) {op} LinCounter(y)', {'LinCounter': LinCounter, 'x': x, 'y': y}).items()) \
                == dict(eval(f'Counter(x) {op} Counter(y)', {'Counter': Counter, 'x': x, 'y': y}))
    e = d
    d |= {'q': 7}
    assert e is d and d['q'] == 7
    t = s
    s |= {9}
    assert t is s and 9 in s
    ND_CHOICES[:] = [2, 1]
    assert list(NDSet([10, 20, 30])) == [30, 20, 10]
    assert list(NDSet([10, 20, 30])) == [10, 20, 30]


def repo_tests_gate():
    """The repository's own tests must pass on the SQL model, without and with the
    de-hash import hook (semantic-preservation gate for both)."""
    import os
    import subprocess
    import wn
    repo = os.path.dirname(os.path.dirname(wn.__file__))
    if not os.path.isdir(os.path.join(repo, 'tests')):
        print('repo tests gate: tests/ not found; skipped', file=sys.stderr)
        return
    verif = os.path.dirname(os.path.dirname(os.path.abspath(__file__)))
    for hook in ('0', '1'):
        env = dict(os.environ, VF_HOOK=hook,
                   PYTHONPATH=verif + os.pathsep + os.environ.get('PYTHONPATH', ''))
        p = subprocess.run(
            [sys.executable, '-m', 'pytest', 'tests', '-q', '-p', 'no:cacheprovider', '-p',
             'vf.pytest_model', '--deselect', 'tests/db_test.py::test_db_multithreading',
             '--deselect', 'tests/db_test.py::test_schema_compatibility'],
            cwd=repo, env=env, capture_output=True, text=True)
        tail = p.stdout.strip().splitlines()[-1] if p.stdout.strip() else ''
        if p.returncode != 0:
            raise SystemExit(f'repo tests gate failed (hook={hook}):\n' + p.stdout[-3000:])
        print(f'repo tests on the SQL model (de-hash hook={hook}): {tail}')


def main():
    test_lincont()
    try:
        from vf import sqlmodel_selftest
    except ImportError:
        sqlmodel_selftest = None
    if sqlmodel_selftest:
        sqlmodel_selftest.main()
        repo_tests_gate()
    print('selftest ok')


if __name__ == '__main__':
    sys.exit(main())
