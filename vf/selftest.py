"""Setup-time self tests of the framework (fast; run by MANIFEST.setup_cmd)."""
import sys


def test_lincont():
    from vf.lincont import LinSet, LinDict, LinCounter, NDSet, ND_CHOICES
    s = LinSet([1, 2, 2, 3])
    assert len(s) == 3 and 2 in s and 5 not in s
    assert (s | {4}) == LinSet([1, 2, 3, 4]) and (s & {2, 9}) == {2} and (s - {1}) == {2, 3}
    d = LinDict([('a', 1)])
    d['b'] = 2
    d.setdefault('c', []).append(1)
    assert d == {'a': 1, 'b': 2, 'c': [1]} and d.get('z') is None and list(d) == ['a', 'b', 'c']
    c = LinCounter('abca')
    assert c['a'] == 2 and c['z'] == 0
    ND_CHOICES[:] = [2, 1]
    assert list(NDSet([10, 20, 30])) == [30, 20, 10]
    assert list(NDSet([10, 20, 30])) == [10, 20, 30]


def main():
    test_lincont()
    try:
        from vf import sqlmodel_selftest
    except ImportError:
        sqlmodel_selftest = None
    if sqlmodel_selftest:
        sqlmodel_selftest.main()
    print('selftest ok')


if __name__ == '__main__':
    sys.exit(main())
