"""Formula-level checking of wn.similarity.lch / res / jcn / lin with z3 directly.

The function bodies are read from /repo's current source, translated statement by statement
from their AST into guarded z3 terms (a tiny symbolic interpreter for assignments,
if/elif/else, return, raise, arithmetic, comparisons), and the property is asserted over
them; ``unsat`` of the negation = holds for all values.  ``math.log`` is an uninterpreted
function with ground instances of "strictly increasing" and log(1) = 0; collaborators
(shortest-path length, most informative lowest common hypernym, information content) are
symbolic values constrained by the facts C13/C15 establish.  An AST node outside the
supported subset aborts with EncodingError (harness error), never a silent pass.

Every query is also written as SMT-LIB2 and given to the cvc5 binary when available;
any `unknown`, error line or disagreement makes the obligation inconclusive.
"""
import ast
import inspect
import os
import subprocess
import tempfile
import textwrap
import time

import z3


class EncodingError(Exception):
    pass


INF = 'inf'


class Raising:
    """value of a call that raises wn.Error when *when* holds (e.g. no common hypernym)"""

    def __init__(self, when, value):
        self.when, self.value = when, value


class Leaf:
    def __init__(self, cond, kind, value=None):
        self.cond, self.kind, self.value = cond, kind, value     # kind: value | inf | error


class Interp:
    """Symbolic interpreter for the small numeric functions of wn.similarity."""

    def __init__(self, env, calls, log):
        self.env0 = env          # name -> z3 term / python constant
        self.calls = calls       # callable(node, interp, env) -> value or None
        self.log = log
        self.log_args = []

    def run(self, fndef):
        return self.block(fndef.body, dict(self.env0), z3.BoolVal(True))

    def block(self, stmts, env, cond):
        """returns list of Leaf; falls through with (env, cond) when no return"""
        leaves = []
        live = [(env, cond)]
        for st in stmts:
            nxt = []
            for env, cond in live:
                if isinstance(st, ast.Expr):
                    if isinstance(st.value, ast.Constant):
                        nxt.append((env, cond))
                        continue
                    v = self.expr(st.value, env)  # evaluated for the encoding check only
                    if isinstance(v, Raising):
                        leaves.append(Leaf(z3.And(cond, v.when), 'error'))
                        cond = z3.And(cond, z3.Not(v.when))
                    nxt.append((env, cond))
                elif isinstance(st, ast.Assign):
                    if len(st.targets) != 1 or not isinstance(st.targets[0], ast.Name):
                        raise EncodingError('assignment target: ' + ast.dump(st.targets[0]))
                    env = dict(env)
                    v = self.expr(st.value, env)
                    if isinstance(v, Raising):
                        # the call raises under v.when; execution continues otherwise
                        leaves.append(Leaf(z3.And(cond, v.when), 'error'))
                        cond = z3.And(cond, z3.Not(v.when))
                        v = v.value
                    env[st.targets[0].id] = v
                    nxt.append((env, cond))
                elif isinstance(st, ast.Return):
                    v = self.expr(st.value, env)
                    if v is INF:
                        leaves.append(Leaf(cond, 'inf'))
                    else:
                        leaves.append(Leaf(cond, 'value', self.real(v)))
                elif isinstance(st, ast.Raise):
                    leaves.append(Leaf(cond, 'error'))
                elif isinstance(st, ast.If):
                    c = self.boolean(self.expr(st.test, env))
                    t_leaves, t_live = self._branch(st.body, env, z3.And(cond, c))
                    f_leaves, f_live = self._branch(st.orelse, env, z3.And(cond, z3.Not(c)))
                    leaves += t_leaves + f_leaves
                    nxt += t_live + f_live
                else:
                    raise EncodingError('unsupported statement: ' + type(st).__name__)
            live = nxt
        self._live = live
        return leaves

    def _branch(self, stmts, env, cond):
        sub = Interp(self.env0, self.calls, self.log)
        sub.log_args = self.log_args
        leaves = sub.block(stmts, env, cond)
        return leaves, sub._live

    # -- expressions ---------------------------------------------------------
    def real(self, v):
        if isinstance(v, (int, float)):
            return z3.RealVal(v)
        if z3.is_int(v):
            return z3.ToReal(v)
        return v

    def boolean(self, v):
        if isinstance(v, bool):
            return z3.BoolVal(v)
        return v

    def expr(self, e, env):
        if isinstance(e, ast.Constant):
            if isinstance(e.value, (int, float)) and not isinstance(e.value, bool):
                return e.value
            raise EncodingError('constant ' + repr(e.value))
        if isinstance(e, ast.Name):
            if e.id in env:
                return env[e.id]
            raise EncodingError('unknown name ' + e.id)
        if isinstance(e, ast.UnaryOp) and isinstance(e.op, ast.USub):
            v = self.expr(e.operand, env)
            return -self.real(v)
        if isinstance(e, ast.BinOp):
            a, b = self.expr(e.left, env), self.expr(e.right, env)
            if a is INF or b is INF:
                raise EncodingError('arithmetic on inf')
            a, b = self.real(a), self.real(b)
            if isinstance(e.op, ast.Add):
                return a + b
            if isinstance(e.op, ast.Sub):
                return a - b
            if isinstance(e.op, ast.Mult):
                return a * b
            if isinstance(e.op, ast.Div):
                self.divisors.append(b) if hasattr(self, 'divisors') else None
                DIVISORS.append(b)
                return a / b
            raise EncodingError('operator ' + type(e.op).__name__)
        if isinstance(e, ast.Compare):
            terms = [self.expr(e.left, env)] + [self.expr(c, env) for c in e.comparators]
            parts = []
            for op, x, y in zip(e.ops, terms, terms[1:]):
                x, y = self.real(x), self.real(y)
                if isinstance(op, ast.Eq):
                    parts.append(x == y)
                elif isinstance(op, ast.NotEq):
                    parts.append(x != y)
                elif isinstance(op, ast.Lt):
                    parts.append(x < y)
                elif isinstance(op, ast.LtE):
                    parts.append(x <= y)
                elif isinstance(op, ast.Gt):
                    parts.append(x > y)
                elif isinstance(op, ast.GtE):
                    parts.append(x >= y)
                else:
                    raise EncodingError('comparison ' + type(op).__name__)
            return z3.And(*parts) if len(parts) > 1 else parts[0]
        if isinstance(e, ast.BoolOp):
            vals = [self.boolean(self.expr(v, env)) for v in e.values]
            return z3.And(*vals) if isinstance(e.op, ast.And) else z3.Or(*vals)
        if isinstance(e, ast.Call):
            v = self.calls(e, self, env)
            if v is None:
                raise EncodingError('unsupported call: ' + ast.unparse(e))
            return v
        raise EncodingError('unsupported expression: ' + ast.unparse(e))


DIVISORS = []


PATCHES = []      # (module name, old, new): canary text patches applied before translation


def load_function(module, name):
    with open(module.__file__) as f:
        src = f.read()
    for mod, old, new in PATCHES:
        if mod == module.__name__:
            if src.count(old) != 1:
                raise EncodingError('canary patch does not match the source')
            src = src.replace(old, new)
    tree = ast.parse(src)
    for node in tree.body:
        if isinstance(node, ast.FunctionDef) and node.name == name:
            return node
    raise EncodingError(f'function {name} not found in {module.__name__}')


# ---------------------------------------------------------------------------
# solver front end: z3, cross-checked with the cvc5 binary

class Query:
    def __init__(self, name, assumptions, negated_goal):
        self.name = name
        self.assumptions = assumptions
        self.goal = negated_goal


def solve(q, timeout_ms=60000):
    s = z3.Solver()
    s.set(timeout=timeout_ms)
    for a in q.assumptions:
        s.add(a)
    s.add(q.goal)
    t = time.perf_counter()
    r = str(s.check())
    dt = time.perf_counter() - t
    model = None
    if r == 'sat':
        m = s.model()
        model = {str(d): str(m[d]) for d in m.decls()}
    second = cvc5_opinion(s)
    verdict = {'unsat': 'holds', 'sat': 'counterexample'}.get(r, 'inconclusive')
    # `holds` needs the second solver's agreement; a `sat` model is validated by evaluating it
    # on the real function instead (replay_model), so only a contradicting `unsat` blocks it
    if r == 'unsat' and second not in (None, 'unsat'):
        verdict = 'inconclusive'
    if r == 'sat' and second == 'unsat':
        verdict = 'inconclusive'
    return {'name': q.name, 'z3': r, 'cvc5': second, 'verdict': verdict, 'solver_s': round(dt, 4),
            'model': model}


def cvc5_opinion(solver):
    exe = '/usr/bin/cvc5'
    if not os.path.exists(exe):
        return None
    text = '(set-logic ALL)\n' + solver.to_smt2()
    fd, path = tempfile.mkstemp(suffix='.smt2')
    try:
        with os.fdopen(fd, 'w') as f:
            f.write(text)
        p = subprocess.run([exe, '--lang', 'smt2', '--tlimit', '60000', path],
                           capture_output=True, text=True, timeout=90)
        out = (p.stdout + p.stderr).strip().splitlines()
        if any('(error' in ln or 'rror' in ln for ln in out):
            return 'error'
        for ln in out:
            if ln.strip() in ('sat', 'unsat', 'unknown'):
                return ln.strip()
        return 'unknown'
    except Exception:  # noqa: BLE001
        return None
    finally:
        os.unlink(path)


# ---------------------------------------------------------------------------
# the obligations for C14

NOLCS = z3.Bool('no_common_hypernym')


def c14_queries():
    import wn.similarity as S
    LOG = z3.Function('log', z3.RealSort(), z3.RealSort())
    log_args = []

    def mk_calls(dist, ics, lcs_ic, depth):
        def calls(node, interp, env):
            src = ast.unparse(node)
            f = node.func
            if isinstance(f, ast.Name) and f.id == '_check_if_pos_compatible':
                return 0
            if isinstance(f, ast.Name) and f.id == 'len':
                inner = ast.unparse(node.args[0])
                if 'shortest_path' in inner:
                    return dist
                return None
            if isinstance(f, ast.Attribute) and f.attr == 'log' and \
                    isinstance(f.value, ast.Name) and f.value.id == 'math':
                arg = interp.real(interp.expr(node.args[0], env))
                log_args.append(arg)
                return LOG(arg)
            if isinstance(f, ast.Name) and f.id == 'float' and \
                    isinstance(node.args[0], ast.Constant) and node.args[0].value == 'inf':
                return INF
            if isinstance(f, ast.Name) and f.id == 'information_content':
                who = ast.unparse(node.args[0])
                if who in ics:
                    return ics[who]
                return None
            if isinstance(f, ast.Name) and f.id == '_most_informative_lcs':
                # raises wn.Error when the synsets share no hypernym (taxonomy, C13)
                return Raising(NOLCS, z3.Int('lcs_token'))
            if isinstance(f, ast.Attribute) and f.attr == 'Error':
                return 0
            return None
        return calls

    queries = []
    encoded = []

    # ---- lch ----------------------------------------------------------------
    fn = load_function(S, 'lch')
    encoded.append('wn.similarity.lch')
    d12, d21, D = z3.Int('d12'), z3.Int('d21'), z3.Int('max_depth')
    base = [d12 >= 0, d21 >= 0, d12 == d21]        # C13: length symmetric, >= 0
    la = Interp({'max_depth': D, 'simulate_root': 0, 'synset1': 0, 'synset2': 0},
                mk_calls(d12, {}, None, D), LOG).run(fn)
    lb = Interp({'max_depth': D, 'simulate_root': 0, 'synset1': 0, 'synset2': 0},
                mk_calls(d21, {}, None, D), LOG).run(fn)
    queries.append(Query('lch: symmetric', base, _differ(la, lb)))
    queries.append(Query('lch: max_depth <= 0 raises wn.Error', base + [D <= 0],
                         z3.Or(*[lf.cond for lf in la if lf.kind != 'error'])))
    queries.append(Query('lch: max_depth > 0 returns a value', base + [D > 0],
                         z3.Or(*[lf.cond for lf in la if lf.kind != 'value'])))
    # identity maximal: distance 0 gives at least the value of any distance d >= 0
    l0 = Interp({'max_depth': D, 'simulate_root': 0, 'synset1': 0, 'synset2': 0},
                mk_calls(z3.IntVal(0), {}, None, D), LOG).run(fn)
    mono = _monotone_instances(LOG, log_args)
    queries.append(Query('lch: no pair scores higher than a synset with itself',
                         base + [D > 0] + mono, _greater(la, l0)))
    queries.append(Query('lch: value is -log((p+1)/(2d))', base + [D > 0],
                         _not_equal_to(la, -LOG((z3.ToReal(d12) + 1) / (2 * z3.ToReal(D))))))
    # vacuity witness: the assumptions are satisfiable and the value leaf is reachable
    queries.append(Query('lch: reachability witness (must be sat)', base + [D > 0],
                         z3.Or(*[lf.cond for lf in la if lf.kind == 'value'])))

    # ---- res / jcn / lin -------------------------------------------------------
    ic1, ic2, ic0 = z3.Real('ic1'), z3.Real('ic2'), z3.Real('ic_lcs')
    icall = [ic1 >= 0, ic2 >= 0, ic0 >= 0]         # C15: IC >= 0
    icbase = icall + [z3.Not(NOLCS)]               # ... and the synsets share a hypernym
    for name in ('res', 'jcn', 'lin'):
        fn = load_function(S, name)
        encoded.append('wn.similarity.' + name)
        env = {'synset1': 0, 'synset2': 0, 'ic': 0}
        a = Interp(env, mk_calls(None, {'synset1': ic1, 'synset2': ic2, 'lcs': ic0}, ic0, None),
                   LOG).run(fn)
        b = Interp(env, mk_calls(None, {'synset1': ic2, 'synset2': ic1, 'lcs': ic0}, ic0, None),
                   LOG).run(fn)
        queries.append(Query(f'{name}: symmetric (the most informative lowest common hypernym is '
                             f'the same in both directions)', icbase, _differ(a, b)))
        queries.append(Query(f'{name}: wn.Error when the synsets share no hypernym, whatever the IC values',
                             icall + [NOLCS],
                             z3.Or(*[lf.cond for lf in a if lf.kind != 'error'] or [z3.BoolVal(False)])))
        queries.append(Query(f'{name}: never raises on IC >= 0', icbase,
                             z3.Or(*[lf.cond for lf in a if lf.kind == 'error'] or [z3.BoolVal(False)])))
        if name == 'res':
            queries.append(Query('res: value is IC of the lowest common hypernym', icbase,
                                 _not_equal_to(a, ic0)))
        if name == 'jcn':
            queries.append(Query('jcn: 0 when all three IC are 0', icbase + [ic1 == 0, ic2 == 0, ic0 == 0],
                                 _not_equal_to(a, z3.RealVal(0))))
            queries.append(Query('jcn: infinite when ic1 + ic2 = 2 ic0 (not all zero)',
                                 icbase + [ic1 + ic2 == 2 * ic0, z3.Not(z3.And(ic1 == 0, ic2 == 0, ic0 == 0))],
                                 z3.Or(*[lf.cond for lf in a if lf.kind != 'inf'])))
            queries.append(Query('jcn: otherwise 1/(ic1 + ic2 - 2 ic0), divisor non-zero',
                                 icbase + [ic1 + ic2 != 2 * ic0],
                                 z3.Or(_not_equal_to(a, 1 / (ic1 + ic2 - 2 * ic0)),
                                       ic1 + ic2 - 2 * ic0 == 0)))
        if name == 'lin':
            queries.append(Query('lin: 0 when either IC is 0', icbase + [z3.Or(ic1 == 0, ic2 == 0)],
                                 _not_equal_to(a, z3.RealVal(0))))
            queries.append(Query('lin: otherwise 2 ic0/(ic1 + ic2), divisor non-zero',
                                 icbase + [ic1 != 0, ic2 != 0],
                                 z3.Or(_not_equal_to(a, 2 * ic0 / (ic1 + ic2)), ic1 + ic2 == 0)))
        queries.append(Query(f'{name}: reachability witness (must be sat)', icbase + [ic1 > 0, ic2 > 0],
                             z3.Or(*[lf.cond for lf in a if lf.kind == 'value'])))
    return queries, encoded


def _differ(a, b):
    """some pair of leaves is jointly reachable with different outcomes"""
    alts = []
    for x in a:
        for y in b:
            both = z3.And(x.cond, y.cond)
            if x.kind != y.kind:
                alts.append(both)
            elif x.kind == 'value':
                alts.append(z3.And(both, x.value != y.value))
    return z3.Or(*alts) if alts else z3.BoolVal(False)


def _greater(a, ref):
    """some value leaf of a exceeds the (value) leaf of ref"""
    alts = []
    for x in a:
        for y in ref:
            if x.kind == 'value' and y.kind == 'value':
                alts.append(z3.And(x.cond, y.cond, x.value > y.value))
    return z3.Or(*alts) if alts else z3.BoolVal(False)


def _not_equal_to(a, term):
    alts = []
    for x in a:
        if x.kind == 'value':
            alts.append(z3.And(x.cond, x.value != term))
        else:
            alts.append(x.cond)
    return z3.Or(*alts) if alts else z3.BoolVal(False)


def _monotone_instances(LOG, args):
    out = [LOG(z3.RealVal(1)) == 0]
    uniq = []
    for a in args:
        if not any(a.eq(u) for u in uniq):
            uniq.append(a)
    for i, x in enumerate(uniq):
        for y in uniq[i + 1:]:
            out.append(z3.Implies(z3.And(x > 0, y > 0, x < y), LOG(x) < LOG(y)))
            out.append(z3.Implies(z3.And(x > 0, y > 0, y < x), LOG(y) < LOG(x)))
            out.append(z3.Implies(x == y, LOG(x) == LOG(y)))
    return out


FORMULA_CANARIES = {
    'lin-zero-before-lcs': ('wn.similarity', "    lcs = _most_informative_lcs(synset1, synset2, ic)\n    ic1 = information_content(synset1, ic)\n    ic2 = information_content(synset2, ic)\n    if ic1 == 0 or ic2 == 0:\n        return 0.0\n",
                            "    ic1 = information_content(synset1, ic)\n    ic2 = information_content(synset2, ic)\n    if ic1 == 0 or ic2 == 0:\n        return 0.0\n    lcs = _most_informative_lcs(synset1, synset2, ic)\n"),
    'jcn-special-case': ('wn.similarity', "    elif ic1 + ic2 == 2 * ic_lcs:", "    elif ic1 == ic2 == ic_lcs:"),
    'lin-asymmetric': ('wn.similarity', "    return 2 * information_content(lcs, ic) / (ic1 + ic2)",
                       "    return 2 * information_content(lcs, ic) / (ic1 + ic1)"),
    'lch-depth': ('wn.similarity', "    return -math.log((distance + 1) / (2 * max_depth))",
                  "    return -math.log((distance + 1) / (2 * max_depth + distance))"),
}


def _num(text):
    """z3 model value -> float"""
    text = text.replace('?', '')
    if '/' in text:
        a, b = text.split('/')
        return float(a) / float(b)
    return float(text)


def replay_model(name, model):
    """Evaluate the real wn.similarity function on the numbers of a z3 model, with fake
    synsets and collaborators, and re-check the property numerically.  True = the property
    holds concretely (the counterexample does not reproduce)."""
    import math
    import wn
    import wn.similarity as S
    fn = name.split(':')[0]
    m = {k: _num(v) for k, v in (model or {}).items()
         if k in ('d12', 'd21', 'max_depth', 'ic1', 'ic2', 'ic_lcs')}
    nolcs = (model or {}).get('no_common_hypernym') == 'True'

    class FS:
        def __init__(self, tag, dist):
            self.tag, self.pos, self.id, self._d = tag, 'n', tag, dist

        def shortest_path(self, other, simulate_root=False):
            return [0] * int(self._d)

    def call(f, *a):
        try:
            return ('value', f(*a))
        except wn.Error:
            return ('error', None)

    def same(x, y):
        if x[0] != y[0]:
            return False
        if x[0] != 'value':
            return True
        if math.isinf(x[1]) or math.isinf(y[1]):
            return x[1] == y[1]
        return abs(x[1] - y[1]) <= 1e-9 * max(1.0, abs(x[1]), abs(y[1]))
    if fn == 'lch':
        d, D = m.get('d12', 0), int(m.get('max_depth', 1))
        a, b = FS('a', d), FS('b', m.get('d21', d))
        r1, r2 = call(S.lch, a, b, D), call(S.lch, b, a, D)
        if 'symmetric' in name:
            return same(r1, r2)
        if '<= 0' in name:
            return r1[0] == 'error'
        if 'returns a value' in name:
            return r1[0] == 'value'
        if 'higher' in name:
            r0 = call(S.lch, FS('a', 0), FS('a', 0), D)
            return r1[0] != 'value' or r0[0] != 'value' or r1[1] <= r0[1] + 1e-12
        return same(r1, ('value', -math.log((d + 1) / (2 * D))))
    ics = {'a': m.get('ic1', 0.0), 'b': m.get('ic2', 0.0), 'c': m.get('ic_lcs', 0.0)}
    saved = (S.information_content, S._most_informative_lcs)
    S.information_content = lambda ss, ic: ics[ss.tag]
    def fake_lcs(s1, s2, ic):
        if nolcs:
            raise wn.Error('no common hypernym')
        return FS('c', 0)
    S._most_informative_lcs = fake_lcs
    try:
        f = getattr(S, fn)
        a, b = FS('a', 0), FS('b', 0)
        r1, r2 = call(f, a, b, None), call(f, b, a, None)
        i1, i2, i0 = ics['a'], ics['b'], ics['c']
        if 'symmetric' in name:
            return same(r1, r2)
        if 'share no hypernym' in name:
            return r1[0] == 'error' and r2[0] == 'error'
        if 'never raises' in name:
            return r1[0] == 'value'
        if fn == 'res':
            return same(r1, ('value', i0))
        if fn == 'jcn':
            if 'all three' in name:
                return same(r1, ('value', 0.0))
            if 'infinite' in name:
                return r1[0] == 'value' and math.isinf(r1[1])
            return same(r1, ('value', 1 / (i1 + i2 - 2 * i0)))
        if fn == 'lin':
            if 'either IC is 0' in name:
                return same(r1, ('value', 0.0))
            return same(r1, ('value', 2 * i0 / (i1 + i2)))
    finally:
        S.information_content, S._most_informative_lcs = saved
    return True


def run(pid):
    """Returns (rows, violations, harness_errors) for chx."""
    if pid != 'C14':
        return [], [], []
    t0 = time.time()
    errors = []
    try:
        queries, encoded = c14_queries()
    except EncodingError as exc:
        return [], [], [f'formula encoding failed (source outside the supported subset): {exc}']
    results = [solve(q) for q in queries]
    # canaries: a deliberately broken copy of the source must produce a counterexample
    canary_rows = []
    for cname, patch in FORMULA_CANARIES.items():
        PATCHES[:] = [patch]
        try:
            cq, _enc = c14_queries()
            cres = [solve(q) for q in cq if 'witness' not in q.name]
            killed = [r['name'] for r in cres if r['verdict'] == 'counterexample']
            canary_rows.append({'name': cname, 'verdict': 'counterexample' if killed else 'confirmed',
                                'witness': killed[:2]})
            if not killed:
                errors.append(f"formula canary '{cname}' was not detected - the queries are blind to it")
        except EncodingError as exc:
            canary_rows.append({'name': cname, 'verdict': 'unavailable', 'note': str(exc)})
        finally:
            PATCHES[:] = []
    rows = []
    violations = []
    by_fn = {}
    for r in results:
        by_fn.setdefault(r['name'].split(':')[0], []).append(r)
    for fn, rs in by_fn.items():
        verdicts = []
        for r in rs:
            witness = 'reachability witness' in r['name']
            if witness:
                if r['z3'] != 'sat':
                    errors.append(f"{r['name']}: assumptions vacuous ({r['z3']})")
                r['verdict'] = 'reachable' if r['z3'] == 'sat' else 'vacuous'
                continue
            verdicts.append(r['verdict'])
            if r['verdict'] == 'counterexample':
                holds_concretely = replay_model(r['name'], r['model'])
                if holds_concretely:
                    errors.append(f"{r['name']}: z3 model {r['model']} does not reproduce on the "
                                  f"real function (encoding or real-vs-float issue)")
                    r['verdict'] = 'harness-error'
                else:
                    violations.append({'ob': 'formula-' + fn, 'call': r['name'], 'model': r['model'],
                                       'what': f"{r['name']}: z3 model {r['model']}"})
            elif r['verdict'] == 'inconclusive':
                errors.append(f"{r['name']}: solver inconclusive (z3 {r['z3']}, cvc5 {r['cvc5']})")
        ok = all(v == 'holds' for v in verdicts)
        rows.append({
            'name': 'formula-' + fn, 'harness_fn': 'vf.formulas.c14_queries',
            'functions': ['wn.similarity.' + fn + ' (body translated from its AST)'],
            'bounds': 'unbounded in the numeric values: distances any integer >= 0, IC any real '
                      '>= 0, max_depth any integer',
            'symbolic': 'shortest-path length, taxonomy depth, information content values',
            'outside': 'IEEE rounding; the collaborators themselves (C13, C15)',
            'stubs': ['math.log uninterpreted (ground monotonicity instances, log 1 = 0)',
                      'shortest_path length / information_content / _most_informative_lcs as '
                      'symbolic values'],
            'partitions': [{'part': r['name'], 'verdict': r['verdict'], 'paths': 1,
                            'z3': r['z3'], 'cvc5': r['cvc5'], 'wall_s': r['solver_s']} for r in rs],
            'paths': len(rs), 'confirmed_paths': sum(1 for r in rs if r['verdict'] == 'holds'),
            'main_confirmed_paths': sum(1 for r in rs if r['verdict'] == 'holds'),
            'smt_queries': len(rs) * 2, 'solver_s': round(sum(r['solver_s'] for r in rs), 3),
            'cpu_wall_s': round(time.time() - t0, 2),
            'verdict': 'confirmed' if ok else ('violation' if any(
                v == 'counterexample' for v in verdicts) else 'no-counterexample-in-budget'),
            'exhaustive': ok,
            'canaries': [c for c in canary_rows if c['name'].startswith(fn)],
            'samples': [{'obligation': 'formula-' + fn, 'query': r['name'], 'z3': r['z3'],
                         'cvc5': r['cvc5']} for r in rs[:3]],
        })
    return rows, violations, errors


if __name__ == '__main__':
    import json
    import sys
    rows, viol, errs = run('C14')
    for r in rows:
        for p in r['partitions']:
            print(p['verdict'], p['z3'], p['cvc5'], p['part'])
    print(json.dumps(viol, indent=1), errs)
    sys.exit(1 if viol else (2 if errs else 0))
