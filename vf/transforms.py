"""Import hook that re-compiles selected ``wn`` modules from /repo's current source.

Modes per module:

``dehash``  set/dict displays, comprehensions and ``set()``/``frozenset()``/
            ``dict()``/``Counter()`` calls *inside function bodies* become
            :class:`vf.lincont.LinSet`/``LinDict``/``LinCounter``; module-level
            constant sets / str-keyed dicts are converted after import.
``ndset``   the same, but sets become :class:`vf.lincont.NDSet` (solver-chosen
            iteration order).
``plain``   no rewrite (only text patches, see below).

Text patches ``(module, old, new)`` are applied to the source text before
parsing; ``old`` must occur exactly once.  They implement canaries (a
deliberately broken copy of a function the harness exercises must yield a
counterexample) without touching /repo.

Nothing is cached: every process re-reads the files, so the encoding always
reflects /repo's working tree.
"""
import ast
import importlib.abc
import importlib.machinery
import sys

from vf import lincont

DEFAULT_PLAIN = ('wn._queries', 'wn.lmf', 'wn._db', 'wn._ili', 'wn.project', 'wn.util',
                 'wn._config', 'wn.constants', 'wn.metrics', 'wn._types', 'wn._exceptions')
DEFAULT_DEHASH = ('wn._core', 'wn._add', 'wn._export', 'wn.taxonomy', 'wn.similarity',
                  'wn.ic', 'wn.validate', 'wn.morphy', 'wn._util')

STATS = {}          # module name -> number of rewritten sites
CACHES = {}         # module name -> number of functools caches replaced by the model
_CONFIG = {'modes': {}, 'patches': []}


class TransformError(Exception):
    pass


class _Rewriter(ast.NodeTransformer):
    """Rewrite hash-based containers, only inside function bodies."""

    def __init__(self):
        self.depth = 0
        self.n = 0

    # -- scope tracking ---------------------------------------------------
    def visit_FunctionDef(self, node):
        self.depth += 1
        node.body = [self.visit(s) for s in node.body]
        self.depth -= 1
        return node

    visit_AsyncFunctionDef = visit_FunctionDef

    def visit_Lambda(self, node):
        self.depth += 1
        node.body = self.visit(node.body)
        self.depth -= 1
        return node

    def visit_AnnAssign(self, node):
        # never touch annotations
        if node.value is not None:
            node.value = self.visit(node.value)
        node.target = self.visit(node.target)
        return node

    # -- rewrites -----------------------------------------------------------
    def _call(self, name, args):
        return ast.Call(ast.Name(name, ast.Load()), args, [])

    def visit_Set(self, node):
        self.generic_visit(node)
        if self.depth == 0:
            return node
        self.n += 1
        return ast.copy_location(self._call('LinSet_', [ast.List(node.elts, ast.Load())]), node)

    def visit_SetComp(self, node):
        self.generic_visit(node)
        if self.depth == 0:
            return node
        self.n += 1
        return ast.copy_location(
            self._call('LinSet_', [ast.GeneratorExp(node.elt, node.generators)]), node)

    def visit_Dict(self, node):
        self.generic_visit(node)
        if self.depth == 0 or any(k is None for k in node.keys):
            return node
        # dicts whose keys are all string constants stay real dicts: hashing a
        # constant is harmless and ElementTree / sqlite3-style consumers need them
        if node.keys and all(isinstance(k, ast.Constant) and isinstance(k.value, str)
                             for k in node.keys):
            return node
        self.n += 1
        pairs = ast.List([ast.Tuple([k, v], ast.Load())
                          for k, v in zip(node.keys, node.values)], ast.Load())
        return ast.copy_location(self._call('LinDict_', [pairs]), node)

    def visit_DictComp(self, node):
        self.generic_visit(node)
        if self.depth == 0:
            return node
        self.n += 1
        gen = ast.GeneratorExp(ast.Tuple([node.key, node.value], ast.Load()), node.generators)
        return ast.copy_location(self._call('LinDict_', [gen]), node)

    _CALLS = {'set': 'LinSet_', 'frozenset': 'LinSet_', 'dict': 'LinDict_',
              'Counter': 'LinCounter_'}

    def visit_Call(self, node):
        self.generic_visit(node)
        if self.depth and isinstance(node.func, ast.Name) and node.func.id in self._CALLS:
            self.n += 1
            node.func = ast.copy_location(ast.Name(self._CALLS[node.func.id], ast.Load()),
                                          node.func)
        return node


def _apply_patches(name, src):
    for mod, old, new in _CONFIG['patches']:
        if mod != name:
            continue
        if src.count(old) != 1:
            raise TransformError(
                f'text patch for {name} matches {src.count(old)} times (need 1): {old[:60]!r}')
        src = src.replace(old, new)
    return src


def _convert_globals(mod, set_cls):
    for k, v in list(mod.__dict__.items()):
        if k.startswith('__'):
            continue
        if isinstance(v, (set, frozenset)):
            try:
                items = sorted(v)
            except TypeError:
                items = list(v)
            mod.__dict__[k] = lincont.LinSet(items)
        elif type(v) is dict and v and all(isinstance(kk, str) for kk in v) \
                and not k.startswith('_SANITIZED'):
            mod.__dict__[k] = lincont.LinDict(list(v.items()))


class _CacheRewriter(ast.NodeTransformer):
    """functools.lru_cache / functools.cache -> vf.lincont.model_lru_cache / model_cache
    (CrossHair bypasses the real ones, which would hide stale-cache defects)."""

    def __init__(self):
        self.n = 0

    def visit_ImportFrom(self, node):
        if node.module == 'functools':
            out = [node]
            for a in node.names:
                if a.name in ('lru_cache', 'cache'):
                    self.n += 1
                    out.append(ast.ImportFrom(
                        'vf.lincont',
                        [ast.alias('model_' + a.name, a.asname or a.name)], 0))
            return out
        return node

    def visit_Attribute(self, node):
        self.generic_visit(node)
        if isinstance(node.value, ast.Name) and node.value.id == 'functools' \
                and node.attr in ('lru_cache', 'cache'):
            self.n += 1
            return ast.copy_location(ast.Name('_vf_model_' + node.attr, ast.Load()), node)
        return node


class _Loader(importlib.machinery.SourceFileLoader):
    def __init__(self, name, path, mode):
        super().__init__(name, path)
        self._mode = mode

    def get_code(self, fullname):
        # never use or write byte-code caches: always compile the current source
        data = self.get_data(self.get_filename(fullname))
        return self.source_to_code(data, self.get_filename(fullname))

    def source_to_code(self, data, path, *, _optimize=-1):
        src = data.decode('utf-8') if isinstance(data, bytes) else data
        src = _apply_patches(self.name, src)
        tree = ast.parse(src)
        cr = _CacheRewriter()
        tree = cr.visit(tree)
        if cr.n:
            tree.body[0:0] = ast.parse(
                'from vf.lincont import model_lru_cache as _vf_model_lru_cache, '
                'model_cache as _vf_model_cache').body
            while isinstance(tree.body[2] if len(tree.body) > 2 else None, ast.ImportFrom) \
                    and tree.body[2].module == '__future__':
                tree.body.insert(0, tree.body.pop(2))
            ast.fix_missing_locations(tree)
            CACHES[self.name] = cr.n
        if self._mode in ('dehash', 'ndset'):
            rw = _Rewriter()
            tree = rw.visit(tree)
            STATS[self.name] = rw.n
            setname = 'NDSet' if self._mode == 'ndset' else 'LinSet'
            imp = ast.parse(
                f'from vf.lincont import {setname} as LinSet_, LinDict as LinDict_, '
                'LinCounter as LinCounter_').body
            pos = 0
            while pos < len(tree.body) and (
                    (isinstance(tree.body[pos], ast.Expr)
                     and isinstance(getattr(tree.body[pos], 'value', None), ast.Constant))
                    or (isinstance(tree.body[pos], ast.ImportFrom)
                        and tree.body[pos].module == '__future__')):
                pos += 1
            tree.body[pos:pos] = imp
            ast.fix_missing_locations(tree)
        else:
            STATS[self.name] = 0
        return compile(tree, path, 'exec', dont_inherit=True)

    def exec_module(self, module):
        super().exec_module(module)
        if self._mode in ('dehash', 'ndset'):
            _convert_globals(module, None)
        if self.name == 'wn._core' and _CONFIG.get('shadow_hash', True):
            module.__dict__['hash'] = _plain_hash


def _plain_hash(x):
    """Contract-free stand-in for ``hash`` inside wn._core (CrossHair's own patched
    ``hash`` carries a contract that gets short-circuited to a random value).

    A structural model of the builtin: a deterministic function of the *value* (so equal
    values hash alike, as the builtin guarantees) that is injective on the small tuples of
    ints / short strings / None that wn hashes - which is what makes "equal entities hash
    alike" a non-vacuous assertion: a ``__hash__`` that looks at a field ``__eq__`` ignores
    yields different model hashes whenever that field differs.  Symbolic ints stay
    symbolic (linear arithmetic); strings contribute their length and first 4 code points."""
    if isinstance(x, tuple):
        h = 7
        for el in x:
            h = h * 1000003 + _plain_hash(el)
        return h
    if x is None:
        return -5
    if isinstance(x, bool):
        return 1 if x else 0
    if isinstance(x, int):
        return x + 0
    if isinstance(x, str):
        h = len(x)
        for ch in x[:4]:
            h = h * 1114112 + ord(ch)
        return h
    return x.__hash__()


class _Finder(importlib.abc.MetaPathFinder):
    def find_spec(self, name, path, target=None):
        mode = _CONFIG['modes'].get(name)
        if mode is None:
            return None
        for f in sys.meta_path:
            if f is self or not hasattr(f, 'find_spec'):
                continue
            spec = f.find_spec(name, path, target)
            if spec and spec.origin and spec.origin.endswith('.py'):
                spec.loader = _Loader(name, spec.origin, mode)
                spec.cached = None
                return spec
        return None


_installed = []


def install(dehash=DEFAULT_DEHASH, ndset=(), plain=DEFAULT_PLAIN, patches=(), shadow_hash=True):
    """Install the hook.  Must run before the affected ``wn`` modules are imported."""
    already = [m for m in list(dehash) + list(ndset) + list(plain) if m in sys.modules]
    if already:
        raise TransformError(f'modules imported before the hook was installed: {already}')
    modes = {}
    for m in plain:
        modes[m] = 'plain'
    for m in dehash:
        modes[m] = 'dehash'
    for m in ndset:
        modes[m] = 'ndset'
    for mod, _old, _new in patches:
        modes.setdefault(mod, 'plain')
    _CONFIG['modes'] = modes
    _CONFIG['patches'] = list(patches)
    _CONFIG['shadow_hash'] = shadow_hash
    if not _installed:
        f = _Finder()
        sys.meta_path.insert(0, f)
        _installed.append(f)


def verify_patches_used():
    """Every patch must have hit a module that was actually imported."""
    missing = [m for m, _o, _n in _CONFIG['patches'] if m not in sys.modules]
    if missing:
        raise TransformError(f'patched modules never imported: {missing}')
