"""Equality-based (hash-free) containers used by the source transform.

A symbolic ``str``/``int`` put into a real ``set``/``dict`` is *realised* by
CrossHair at ``__hash__`` (it then enumerates concrete values for ever).  The
transform in :mod:`vf.transforms` therefore rewrites set/dict displays,
comprehensions and ``set()``/``dict()``/``Counter()`` calls inside the function
bodies of selected ``wn`` modules into these list-backed containers, which only
use ``==``.  Iteration order is insertion order (``LinSet``) or an order chosen
by symbolic integers (``NDSet``: models hash-seed dependent set order).

The classes implement exactly the API surface that the transformed ``wn`` code
uses; anything else raises ``AttributeError`` loudly instead of passing.
"""


def _eq_any(x, items):
    """x == some item, as one non-forking disjunction when values are symbolic."""
    acc = False
    for y in items:
        acc = (y == x) | acc
    return acc


class LinSet:
    __hash__ = None

    def __init__(self, it=()):
        self._xs = []
        for x in it:
            self.add(x)

    def _new(self, it=()):
        return type(self)(it)

    def add(self, x):
        if not (x in self):
            self._xs.append(x)

    def update(self, *its):
        for it in its:
            for x in it:
                self.add(x)

    def discard(self, x):
        self._xs = [y for y in self._xs if not (y == x)]

    def remove(self, x):
        if not (x in self):
            raise KeyError(x)
        self.discard(x)

    def pop(self):
        if not self._xs:
            raise KeyError('pop from an empty set')
        return self._xs.pop()

    def clear(self):
        self._xs = []

    def copy(self):
        return self._new(self._xs)

    def __contains__(self, x):
        return _eq_any(x, self._xs)

    def _order(self):
        return list(self._xs)

    def __iter__(self):
        return iter(self._order())

    def __len__(self):
        return len(self._xs)

    def __bool__(self):
        return len(self._xs) > 0

    def __repr__(self):
        return '%s(%r)' % (type(self).__name__, self._xs)

    # algebra ------------------------------------------------------------
    def __sub__(self, other):
        o = list(other)
        return self._new(x for x in self._xs if not _eq_any(x, o))

    def __rsub__(self, other):
        return self._new(x for x in other if not (x in self))

    def difference(self, *others):
        r = self
        for o in others:
            r = r - o
        return r._new(r._xs)

    def difference_update(self, *others):
        self._xs = self.difference(*others)._xs

    def __isub__(self, other):
        self.difference_update(other)
        return self

    def __or__(self, other):
        r = self._new(self._xs)
        r.update(other)
        return r

    def __ror__(self, other):
        r = self._new(other)
        r.update(self._xs)
        return r

    def __ior__(self, other):
        self.update(other)
        return self

    def union(self, *others):
        r = self._new(self._xs)
        r.update(*others)
        return r

    def __and__(self, other):
        o = list(other)
        return self._new(x for x in self._xs if _eq_any(x, o))

    def __rand__(self, other):
        return self._new(x for x in other if x in self)

    def intersection(self, *others):
        r = self
        for o in others:
            r = r & o
        return r._new(r._xs)

    def intersection_update(self, *others):
        self._xs = self.intersection(*others)._xs

    def __iand__(self, other):
        self.intersection_update(other)
        return self

    def isdisjoint(self, other):
        return not any(x in self for x in other)

    def issubset(self, other):
        o = list(other)
        return all(_eq_any(x, o) for x in self._xs)

    def issuperset(self, other):
        return all(x in self for x in other)

    __le__ = issubset
    __ge__ = issuperset

    def __eq__(self, other):
        if not isinstance(other, (LinSet, set, frozenset)):
            return NotImplemented
        return len(self) == len(other) and self.issubset(other)

    def __ne__(self, other):
        r = self.__eq__(other)
        return r if r is NotImplemented else not r


#: queue of symbolic integers steering the iteration order of every NDSet
ND_CHOICES = []


class NDSet(LinSet):
    """A set whose iteration order is chosen by the solver.

    Each ``__iter__`` consumes ``len(self)-1`` integers from ``ND_CHOICES`` (a
    queue of symbolic ints supplied by the harness; identity order once the
    queue is empty) and yields the permutation they select.  Running a function
    once with an empty queue and once with symbolic choices, and asserting
    equal results, turns "independent of set iteration order" into an
    assertion the solver can refute.
    """

    def _order(self):
        items = list(self._xs)
        out = []
        while len(items) > 1:
            k = ND_CHOICES.pop(0) if ND_CHOICES else 0
            j = 0
            for jj in range(1, len(items)):
                if k == jj:
                    j = jj
            out.append(items.pop(j))
        out.extend(items)
        return out

    def pop(self):
        if not self._xs:
            raise KeyError('pop from an empty set')
        first = self._order()[0]
        self.discard(first)
        return first


class LinDict:
    __hash__ = None

    def __init__(self, it=(), **kw):
        self._ks = []
        self._vs = []
        if isinstance(it, (LinDict, dict)):
            it = list(it.items())
        for k, v in it:
            self[k] = v
        for k, v in kw.items():
            self[k] = v

    def _idx(self, k):
        for i, y in enumerate(self._ks):
            if y == k:
                return i
        return -1

    def __setitem__(self, k, v):
        i = self._idx(k)
        if i < 0:
            self._ks.append(k)
            self._vs.append(v)
        else:
            self._vs[i] = v

    def __getitem__(self, k):
        i = self._idx(k)
        if i < 0:
            missing = getattr(type(self), '__missing__', None)
            if missing is not None:
                return missing(self, k)
            raise KeyError(k)
        return self._vs[i]

    def __delitem__(self, k):
        i = self._idx(k)
        if i < 0:
            raise KeyError(k)
        self._ks.pop(i)
        self._vs.pop(i)

    def __contains__(self, k):
        return self._idx(k) >= 0

    def get(self, k, d=None):
        i = self._idx(k)
        return d if i < 0 else self._vs[i]

    def setdefault(self, k, d=None):
        i = self._idx(k)
        if i < 0:
            self._ks.append(k)
            self._vs.append(d)
            return d
        return self._vs[i]

    def pop(self, k, *d):
        i = self._idx(k)
        if i < 0:
            if d:
                return d[0]
            raise KeyError(k)
        self._ks.pop(i)
        return self._vs.pop(i)

    def update(self, it=(), **kw):
        if isinstance(it, (LinDict, dict)):
            it = list(it.items())
        for k, v in it:
            self[k] = v
        for k, v in kw.items():
            self[k] = v

    def items(self):
        return list(zip(self._ks, self._vs))

    def keys(self):
        return list(self._ks)

    def values(self):
        return list(self._vs)

    def copy(self):
        return type(self)(self.items())

    def clear(self):
        self._ks = []
        self._vs = []

    def __iter__(self):
        return iter(list(self._ks))

    def __len__(self):
        return len(self._ks)

    def __bool__(self):
        return len(self._ks) > 0

    def __or__(self, other):
        r = LinDict(self.items())
        r.update(other)
        return r

    def __ror__(self, other):
        r = LinDict(other)
        r.update(self)
        return r

    def __ior__(self, other):
        # in place, like dict.__ior__: aliases of the mapping see the update
        self.update(other)
        return self

    def __eq__(self, other):
        if isinstance(other, dict):
            other = LinDict(other)
        if not isinstance(other, LinDict):
            return NotImplemented
        if len(self) != len(other):
            return False
        for k, v in self.items():
            if k not in other or not (other[k] == v):
                return False
        return True

    def __ne__(self, other):
        r = self.__eq__(other)
        return r if r is NotImplemented else not r

    def __repr__(self):
        return '%s(%r)' % (type(self).__name__, self.items())


class LinCounter(LinDict):
    """collections.Counter over ``==``; also accepts a mapping of multiplicities
    (used to model a corpus with symbolic counts)."""

    def __init__(self, it=()):
        self._ks = []
        self._vs = []
        if isinstance(it, (LinDict, dict)):
            for k, v in it.items():
                self[k] = v
            return
        for x in it:
            i = self._idx(x)
            if i < 0:
                self._ks.append(x)
                self._vs.append(1)
            else:
                self._vs[i] += 1

    def _keep_positive(self):
        for k, v in self.items():
            if not v > 0:
                self.pop(k)
        return self

    def __or__(self, other):
        r = LinCounter(self)
        r |= other
        return r

    def __ior__(self, other):
        # collections.Counter: in-place union = maximum of the counts
        for k, v in other.items():
            if v > self[k]:
                self[k] = v
        return self._keep_positive()

    def __add__(self, other):
        r = LinCounter(self)
        r += other
        return r

    def __iadd__(self, other):
        for k, v in other.items():
            self[k] = self[k] + v
        return self._keep_positive()

    def __sub__(self, other):
        r = LinCounter(self)
        r -= other
        return r

    def __isub__(self, other):
        for k, v in other.items():
            self[k] = self[k] - v
        return self._keep_positive()

    def __and__(self, other):
        r = LinCounter()
        for k, v in self.items():
            o = other[k] if k in other else 0
            m = v if v < o else o
            if m > 0:
                r[k] = m
        return r

    def __iand__(self, other):
        r = self & other
        self._ks, self._vs = r._ks, r._vs
        return self

    def __missing__(self, k):
        return 0

    def elements(self):
        for k, v in zip(self._ks, self._vs):
            for _ in range(v):
                yield k


def to_plain(x):
    """Deep-convert Lin containers to plain lists / (key, value) lists for comparison."""
    if isinstance(x, LinDict):
        return [(to_plain(k), to_plain(v)) for k, v in x.items()]
    if isinstance(x, LinSet):
        return [to_plain(v) for v in x._xs]
    if isinstance(x, dict):
        return [(to_plain(k), to_plain(v)) for k, v in x.items()]
    if isinstance(x, (list, tuple)):
        return [to_plain(v) for v in x]
    return x


# ---------------------------------------------------------------------------
# model of functools.lru_cache / functools.cache
#
# CrossHair skips lru_cache wrappers (every call goes to the wrapped function), which
# hides stale-cache defects.  The import hook therefore rebinds lru_cache/cache in the wn
# modules to this equality-based memo (keys compared with ==, as functools does after the
# hash match; no eviction - maxsize only matters for memory).  All model caches are
# cleared at the beginning and at the end of every explored path.

_MODEL_CACHES = []


def reset_model_caches():
    for c in _MODEL_CACHES:
        c.clear()


def model_lru_cache(maxsize=128, typed=False):
    def deco(fn):
        store = LinDict()
        _MODEL_CACHES.append(store)

        def wrapper(*args, **kwargs):
            key = (args, tuple(sorted(kwargs.items())))
            if key in store:
                return store[key]
            r = fn(*args, **kwargs)
            store[key] = r
            return r
        wrapper.__wrapped__ = fn
        wrapper.__name__ = getattr(fn, '__name__', 'cached')
        wrapper.__doc__ = getattr(fn, '__doc__', None)
        wrapper.cache_clear = store.clear
        return wrapper
    if callable(maxsize):       # used bare: @lru_cache
        fn, maxsize = maxsize, 128
        return deco(fn)
    return deco


def model_cache(fn):
    return model_lru_cache(None)(fn)
