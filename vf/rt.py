"""Runtime support imported by every harness module.

Two modes (env ``VF_MODE``):

``sym``   the harness runs under CrossHair: source transforms are installed, the
          database is the executable SQL model.
``real``  replay: unmodified ``wn`` modules, real ``sqlite3`` in a fresh temp
          directory, real ElementTree/expat.  A counterexample only counts when
          the same harness function fails here too.
"""
import json
import os
import sys
import tempfile

VERIF = os.path.dirname(os.path.dirname(os.path.abspath(__file__)))
MODE = os.environ.get('VF_MODE', 'real')
SYM = MODE == 'sym'
TWIN = os.environ.get('VF_TWIN') == '1'
CANARY = os.environ.get('VF_CANARY') or None
TIER = os.environ.get('VERIF_TIER', 'quick')
THOROUGH = TIER == 'thorough'


def part(default_n=1):
    """(i, n): this worker's partition."""
    s = os.environ.get('VF_PART', '')
    if not s:
        return 0, default_n
    i, n = s.split('/')
    return int(i), int(n)


def setup(dehash=None, ndset=(), plain=(), canaries=None, shadow_hash=True):
    """Install the import hook (sym mode) and the canary's text patches.

    Must be called before ``import wn``.  In real mode only the canary patches are
    honoured (so a canary can also be replayed concretely); without a canary the
    modules are left completely untouched.
    """
    from vf import transforms
    patches = []
    if CANARY:
        if not canaries or CANARY not in canaries:
            raise transforms.TransformError(f'unknown canary {CANARY!r}')
        spec = canaries[CANARY]
        if spec and isinstance(spec[0], str):
            spec = [spec]
        patches = [tuple(p) for p in spec]
    if SYM:
        transforms.install(
            dehash=transforms.DEFAULT_DEHASH if dehash is None else dehash,
            ndset=ndset, plain=plain or transforms.DEFAULT_PLAIN, patches=patches,
            shadow_hash=shadow_hash)
    elif patches:
        transforms.install(dehash=(), ndset=(), plain=(), patches=patches,
                           shadow_hash=False)
    _isolate_wn()


_TMP = []


def _isolate_wn():
    """Point wn at a private data directory so nothing touches ~/.wn_data."""
    d = tempfile.mkdtemp(prefix='vf-wn-')
    _TMP.append(d)
    import wn
    wn.config.data_directory = d
    import atexit
    import shutil
    atexit.register(shutil.rmtree, d, True)


def begin():
    """Clear the model caches (functools.lru_cache stand-ins): called at the start of a
    harness path by DB()/Graph() unless told otherwise, and at its end by verdict()."""
    if SYM:
        from vf.lincont import reset_model_caches
        reset_model_caches()


def verdict(ok):
    """Final return value of a harness.

    In twin mode every path that reaches the end fails, which turns the run into
    the reachability witness for the harness (a twin that is 'confirmed' or
    cannot meet its precondition means the harness is vacuous).
    """
    begin()
    if TWIN:
        return False
    return ok


# ---------------------------------------------------------------------------
# known findings (read-only at run time)

_FINDINGS = None


def findings():
    global _FINDINGS
    if _FINDINGS is None:
        p = os.path.join(VERIF, 'known_findings.json')
        with open(p) as f:
            _FINDINGS = json.load(f)['findings']
    return _FINDINGS


def finding_open(fid):
    """True when finding *fid* is listed as open: harnesses then exclude exactly that
    failure class (by a predicate written next to the exclusion) so that any other
    violation of the property is still reported."""
    if os.environ.get('VF_NO_EXCLUDE') == '1':
        return False
    for f in findings():
        if f['id'] == fid:
            return f['status'] == 'open'
    return False


def mkset(items):
    """A set literal for harness code: equality-based under CrossHair, real otherwise."""
    if SYM:
        from vf.lincont import LinSet
        return LinSet(items)
    return set(items)


def mkdict(pairs):
    if SYM:
        from vf.lincont import LinDict
        return LinDict(pairs)
    return dict(pairs)


def log(*a):
    print(*a, file=sys.stderr)


# ---------------------------------------------------------------------------
# database environment: the SQL model under CrossHair, real SQLite in replay

class DB:
    """A fresh, empty wn database."""

    def __init__(self, fresh=True):
        import wn
        if fresh:
            begin()
        if SYM:
            from vf import sqlmodel
            self.conn = sqlmodel.install(sqlmodel.MConn())
            self.dir = None
        else:
            import wn._db
            for c in list(wn._db.pool.values()):
                try:
                    c.close()
                except Exception:  # noqa: BLE001
                    pass
            wn._db.pool.clear()
            self.dir = tempfile.mkdtemp(prefix='vf-db-', dir=_TMP[0] if _TMP else None)
            wn.config.data_directory = self.dir
            self.conn = wn._db.connect()

    def tables(self):
        if SYM:
            return list(self.conn.db.tables)
        return [r[0] for r in self.conn.execute(
            "select name from sqlite_master where type='table'")]

    def dump(self):
        """{table: [rows]} in table order (model) / rowid order (SQLite)."""
        if SYM:
            return self.conn.db.snapshot()
        out = {}
        for t in self.tables():
            out[t] = [list(r) for r in self.conn.execute(f'SELECT * FROM {t} ORDER BY rowid')]
        return out

    def in_transaction(self):
        return self.conn.in_transaction

    def insert_rows(self, table, rows):
        """Fill a table directly (table-symbolic harnesses).  No constraint checking."""
        if SYM:
            self.conn.db.tables[table][1].extend([list(r) for r in rows])
        else:
            self.conn.execute('PRAGMA foreign_keys = OFF')
            for r in rows:
                self.conn.execute(
                    f"INSERT INTO {table} VALUES ({','.join('?' * len(r))})", list(r))
            self.conn.commit()


def quiet_add(resource):
    import wn
    wn.add_lexical_resource(resource, progress_handler=None)


def stub_normalizer(fn=None):
    """Replace wn's normalize_form (str.lower + unicodedata: C code that CrossHair can only
    run on concrete strings) by *fn* (identity by default) in wn._add and wn._core.  Listed
    as a stub wherever it is used; no-op in real mode unless *fn* is given explicitly."""
    if not SYM and fn is None:
        return
    import wn._add
    import wn._core
    f = fn or (lambda s: s)
    wn._add.normalize_form = f
    wn._core.normalize_form = f


# ---------------------------------------------------------------------------
# fault injection shared by the model and the real database

class Boom(Exception):
    """Injected failure (an ordinary exception)."""


class HardBoom(BaseException):
    """Injected failure that is not an Exception (like KeyboardInterrupt from a progress
    handler)."""


class Faults:
    """Counts the calls wn makes to execute()/executemany() and to the progress handler;
    the k-th one raises.  Same counting in both modes."""

    def __init__(self):
        self.n = 0
        self.k = -1
        self.hard = False
        self.sql = True        # count SQL calls
        self.progress = True   # count progress callbacks
        self.trace = []

    def arm(self, k, hard=False, sql=True, progress=True):
        self.n = 0
        self.k = k
        self.hard = hard
        self.sql = sql
        self.progress = progress

    def disarm(self):
        self.k = -1

    def tick(self, kind):
        if self.k < 0:
            return
        if (kind == 'sql' and not self.sql) or (kind == 'progress' and not self.progress):
            return
        self.n += 1
        if self.n == self.k:
            self.k = -1
            if kind == 'sql' and not self.hard:
                import sqlite3
                raise sqlite3.OperationalError('injected: statement denied')
            raise (HardBoom if self.hard else Boom)()

    def progress_class(self):
        from wn.util import ProgressHandler
        faults = self

        class FaultyProgress(ProgressHandler):
            def update(self, n=1, force=False):
                faults.tick('progress')

            def set(self, **kwargs):
                faults.tick('progress')

            def flash(self, message):
                faults.tick('progress')

            def close(self):
                pass
        return FaultyProgress


class _ProxyCursor:
    def __init__(self, cur, faults):
        self._c = cur
        self._f = faults

    def execute(self, sql, params=()):
        if not sql.lstrip().upper().startswith('PRAGMA'):
            self._f.tick('sql')
        self._c.execute(sql, params)
        return self

    def executemany(self, sql, seq):
        seq = list(seq)
        self._f.tick('sql')
        self._c.executemany(sql, seq)
        return self

    def __iter__(self):
        return iter(self._c)

    def __next__(self):
        return next(self._c)

    def __getattr__(self, name):
        return getattr(self._c, name)


class _ProxyConn:
    def __init__(self, conn, faults):
        self._c = conn
        self._f = faults

    def cursor(self):
        return _ProxyCursor(self._c.cursor(), self._f)

    def execute(self, sql, params=()):
        return _ProxyCursor(self._c.cursor(), self._f).execute(sql, params)

    def executemany(self, sql, seq):
        return _ProxyCursor(self._c.cursor(), self._f).executemany(sql, seq)

    def __enter__(self):
        self._c.__enter__()
        return self

    def __exit__(self, *a):
        return self._c.__exit__(*a)

    def __getattr__(self, name):
        return getattr(self._c, name)


class _EagerProgressConn:
    """real-mode connection proxy: SQLite's progress handler fires after every VM instruction
    (as it would, sooner or later, in a statement over a large database)"""

    def __init__(self, conn):
        self._c = conn

    def set_progress_handler(self, handler, n):
        return self._c.set_progress_handler(handler, 1 if handler is not None else 0)

    def __enter__(self):
        self._c.__enter__()
        return self

    def __exit__(self, *a):
        return self._c.__exit__(*a)

    def __getattr__(self, name):
        return getattr(self._c, name)


def eager_progress(db):
    """The period of SQLite's progress handler counts VM instructions, i.e. depends on the
    size of the database.  The model runs the handler once per statement; in real mode the
    period is set to one instruction so that a witness found on the model shows on a small
    real database as well."""
    if SYM:
        return
    import wn
    import wn._db
    wn._db.pool[wn.config.database_path] = _EagerProgressConn(db.conn)


def fault_db():
    """(DB, Faults): a fresh database whose connection counts / fails SQL calls."""
    db = DB()
    f = Faults()
    if SYM:
        def hook(kind, sql):
            if kind != 'pragma':
                f.tick('sql')
        db.conn.hook = hook
        # the callbacks wn makes itself are the fault points; SQLite's own calls of the
        # handler (none on a small database) are not counted in either mode
        db.conn.progress_in_statements = False
    else:
        import wn
        import wn._db
        proxy = _ProxyConn(db.conn, f)
        wn._db.pool[wn.config.database_path] = proxy
        db.raw = db.conn
        db.conn = proxy
    return db, f


def native_float_in(module):
    """CrossHair's patched float() turns float('inf') into a solver-backed value whose search
    node is never exhausted.  Bind a float() that evaluates string constants natively in
    *module* (wn.similarity uses float('inf') for unconnected synsets)."""
    if not SYM:
        return
    from crosshair.tracers import NoTracing
    real_float = float

    def _float(x=0.0):
        if type(x) is str:
            with NoTracing():
                return real_float(x)
        return real_float(x)
    module.float = _float


def seed_independent(make_transcript, seeds=range(0, 12)):
    """Real-mode side of the hash-seed obligations: the transcript must be identical in
    sub-processes started with different PYTHONHASHSEED values."""
    import subprocess
    out = os.environ.get('VF_SEED_CHILD')
    if out:
        with open(out, 'w') as f:
            f.write(repr(make_transcript()))
        return True
    seen = []
    for k in seeds:
        fd, path = tempfile.mkstemp(prefix='vf-seed-')
        os.close(fd)
        env = dict(os.environ, PYTHONHASHSEED=str(k), VF_SEED_CHILD=path)
        subprocess.run([sys.executable, '-m', 'vf.replay'] + sys.argv[1:], env=env,
                       capture_output=True, text=True, timeout=120)
        with open(path) as f:
            seen.append(f.read())
        os.unlink(path)
    if any(not t for t in seen):
        raise RuntimeError('hash-seed replay child produced no transcript')
    if len(set(seen)) > 1:
        log('transcripts differ across PYTHONHASHSEED values:', sorted(set(seen))[:2])
    return len(set(seen)) == 1
