"""Runtime support imported by every harness module.

Two modes (env ``VF_MODE``):

``sym``   the harness runs under CrossHair: source transforms are installed, the
          database is the executable SQL model.
``real``  replay: unmodified ``wn`` modules, real ``sqlite3`` in a fresh temp
          directory, real ElementTree/expat.  A counterexample only counts when
          the same harness function fails here too.
"""
import json
import os
import sys
import tempfile

VERIF = os.path.dirname(os.path.dirname(os.path.abspath(__file__)))
MODE = os.environ.get('VF_MODE', 'real')
SYM = MODE == 'sym'
TWIN = os.environ.get('VF_TWIN') == '1'
CANARY = os.environ.get('VF_CANARY') or None
TIER = os.environ.get('VERIF_TIER', 'quick')
THOROUGH = TIER == 'thorough'


def part(default_n=1):
    """(i, n): this worker's partition."""
    s = os.environ.get('VF_PART', '')
    if not s:
        return 0, default_n
    i, n = s.split('/')
    return int(i), int(n)


def setup(dehash=None, ndset=(), plain=(), canaries=None, shadow_hash=True):
    """Install the import hook (sym mode) and the canary's text patches.

    Must be called before ``import wn``.  In real mode only the canary patches are
    honoured (so a canary can also be replayed concretely); without a canary the
    modules are left completely untouched.
    """
    from vf import transforms
    patches = []
    if CANARY:
        if not canaries or CANARY not in canaries:
            raise transforms.TransformError(f'unknown canary {CANARY!r}')
        spec = canaries[CANARY]
        if spec and isinstance(spec[0], str):
            spec = [spec]
        patches = [tuple(p) for p in spec]
    if SYM:
        transforms.install(
            dehash=transforms.DEFAULT_DEHASH if dehash is None else dehash,
            ndset=ndset, plain=plain, patches=patches, shadow_hash=shadow_hash)
    elif patches:
        transforms.install(dehash=(), ndset=(), plain=(), patches=patches,
                           shadow_hash=False)
    _isolate_wn()


_TMP = []


def _isolate_wn():
    """Point wn at a private data directory so nothing touches ~/.wn_data."""
    d = tempfile.mkdtemp(prefix='vf-wn-')
    _TMP.append(d)
    import wn
    wn.config.data_directory = d
    import atexit
    import shutil
    atexit.register(shutil.rmtree, d, True)


def verdict(ok):
    """Final return value of a harness.

    In twin mode every path that reaches the end fails, which turns the run into
    the reachability witness for the harness (a twin that is 'confirmed' or
    cannot meet its precondition means the harness is vacuous).
    """
    if TWIN:
        return False
    return ok


# ---------------------------------------------------------------------------
# known findings (read-only at run time)

_FINDINGS = None


def findings():
    global _FINDINGS
    if _FINDINGS is None:
        p = os.path.join(VERIF, 'known_findings.json')
        with open(p) as f:
            _FINDINGS = json.load(f)['findings']
    return _FINDINGS


def finding_open(fid):
    """True when finding *fid* is listed as open: harnesses then exclude exactly that
    failure class (by a predicate written next to the exclusion) so that any other
    violation of the property is still reported."""
    if os.environ.get('VF_NO_EXCLUDE') == '1':
        return False
    for f in findings():
        if f['id'] == fid:
            return f['status'] == 'open'
    return False


def mkset(items):
    """A set literal for harness code: equality-based under CrossHair, real otherwise."""
    if SYM:
        from vf.lincont import LinSet
        return LinSet(items)
    return set(items)


def mkdict(pairs):
    if SYM:
        from vf.lincont import LinDict
        return LinDict(pairs)
    return dict(pairs)


def log(*a):
    print(*a, file=sys.stderr)
